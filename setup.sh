#!/bin/sh
# Build the overlay venv (/verif/.venv over /venv) with crosshair-tool from the offline wheelhouse.
set -e
HERE="$(cd "$(dirname "$0")" && pwd)"
cd "$HERE"
if ! [ -x .venv/bin/python ] || ! .venv/bin/python -c 'import crosshair, z3, cpppo' 2>/dev/null; then
    rm -rf .venv
    /venv/bin/python -m venv .venv
    SP="$(.venv/bin/python -c 'import sysconfig; print(sysconfig.get_paths()["purelib"])')"
    echo "import site; site.addsitedir('/venv/lib/python3.12/site-packages')" > "$SP/_overlay.pth"
    PIP_NO_INDEX=1 .venv/bin/pip install -q --no-index --find-links /opt/veriftools/wheels crosshair-tool
fi
.venv/bin/python -c 'import crosshair, z3, cpppo; print("setup ok: crosshair", crosshair.__version__, "z3", z3.get_version_string(), "cpppo from", cpppo.__file__)'
PYTHONPATH="$HERE" .venv/bin/python -m vrt.selftest
