#!/usr/bin/env python3
"""seeded_eval.py [ids...]  -- for every kept seeded change under /verif/seeded/<id>/ : make a scratch worktree of /repo HEAD outside
/repo and /verif, apply patch.diff, confirm its demonstration (exit 1 with the change, exit 0 without), run the listed checks against the
scratch copy (run_check.py with VRT_CPPPO_ENV; /repo itself is never modified), record the outcome in meta.json, remove the worktree."""
import json
import os
import shutil
import subprocess
import sys

HERE = os.path.dirname(os.path.dirname(os.path.abspath(__file__)))
CHECKS = {   # seeded id -> [(property check, --only obligations or None)]
    'C01-a': [('C01', 'forward_open_request_small_large_O_T,forward_open_request_large_small_T_O,forward_open_request_large_small_O_T,forward_open_request_small_small_O_T')],
    'C02-a': [('C02', None), ('C06', 'pipelined_onecut_writetag_readtag,pipelined_onecut_readend_multiplemul')],
    'C03-a': [('C03', 'configured_tags_are_distinct_arrays'), ('C14', 'unconnected_multiread_0_5,connected_read_small')],
    'C04-a': [('C04', None)],
    'C05-a': [('C05', None)],
    'C06-a': [('C15', 'route_simple_vs_one_write,route_simple_vs_absent_read,route_simple_vs_empty_write'), ('C06', 'one_reply_read_tag,one_reply_write_tag')],
    'C07-a': [('C07', 'bundle_reads_under_budget_12_first1,bundle_reads_under_budget_12_first3,bundle_reads_under_budget_16_first2,bundle_reads_under_budget_16_first3')],
    'C08-a': [('C08', 'write_tag_inconsistent_fields_at1_off0,write_frag_inconsistent_fields_at0_off0,write_frag_inconsistent_fields_at1_off1'), ('C05', 'range_write_tag_UDINT,range_write_frag_INT')],
    'C10-a': [('C10', None)],
    'C11-a': [('C11', 'multibyte_plus,multibyte')],
    'C12-a': [('C12', 'bundles_never_mix_paths_order1_depth0,bundles_never_mix_paths_order1_depth2')],
    'C13-a': [('C13', 'reply_lost_depth2_multiple100')],
    'C14-a': [('C14', 'unconnected_multiread_0_5,connected_read_small'), ('C03', 'configured_tags_are_distinct_arrays')],
    'C15-a': [('C15', 'route_one_vs_onestr_write,route_one_vs_one_write')],
    'C16-a': [('C16', 'reserved_and_indexed')],
    'C19-a': [('C19', None)],
    'C20-a': [('C20', 'stream_size0_bytes,stream_size0_text,stream_size0_null')],
    # second round (different mechanism per property)
    'C01-b': [('C01', 'epath_route_path_portnum_portnum')],
    'C02-b': [('C02', None)],
    'C03-b': [('C05', 'range_write_tag_UDINT,range_write_frag_INT'), ('C08', 'write_tag_inconsistent_fields_at1_off0,write_frag_inconsistent_fields_at0_off0')],
    'C05-b': [('C05', None)],
    'C06-b': [('C14', 'forward_open_rejected_small'), ('C06', 'one_reply_forward_open_refused')],
    'C08-b': [('C08', 'udp_trailing_bytes_do_not_leak')],
    'C10-b': [('C10', None)],
    'C12-b': [('C12', 'text_write_cast_dot,text_write')],
    'C13-b': [('C13', 'proxy_handshake_fault_discards_quick')],
    # third round
    'C04-c': [('C04', None)],
    'C07-c': [('C01', 'msp_request_odd_member_sint1,msp_request_odd_member_sint3'), ('C07', None)],
    'C11-c': [('C11', 'negated_exit,curated_2,ops1_00')],
    'C15-c': [('C15', 'personality_established_by_construction,route_simple_vs_one_write')],
    'C16-c': [('C16', None)],
    'C20-c': [('C20', 'roundtrip_float_selected,roundtrip_int,roundtrip_list2')],
}


def sh(cmd, **kw):
    return subprocess.run(cmd, shell=True, capture_output=True, text=True, **kw)


def main(ids):
    base = '/tmp/vrt-seed'
    os.makedirs(base, exist_ok=True)
    for sid in ids:
        d = os.path.join(HERE, 'seeded', sid)
        wt = os.path.join(base, sid)
        env = os.path.join(base, 'env_' + sid)
        sh('git -C /repo worktree remove --force %s' % wt)
        shutil.rmtree(env, ignore_errors=True)
        r = sh('git -C /repo worktree add -q %s HEAD' % wt)
        os.makedirs(env, exist_ok=True)
        os.symlink(wt, os.path.join(env, 'cpppo'))
        out = dict(applied=False)
        try:
            a = sh('git -C %s apply %s/patch.diff' % (wt, d))
            out['applied'] = a.returncode == 0
            os.makedirs(os.path.join(wt, '_mutation'), exist_ok=True)
            shutil.copy(os.path.join(d, 'demo.py'), os.path.join(wt, '_mutation', 'demo.py'))
            run = 'cd %s && PYTHONPATH=%s timeout 600 /venv/bin/python _mutation/demo.py' % (wt, env)
            out['demo_with_change_rc'] = sh(run).returncode
            sh('git -C %s apply -R %s/patch.diff' % (wt, d))
            out['demo_without_change_rc'] = sh(run).returncode
            sh('git -C %s apply %s/patch.diff' % (wt, d))
            out['checks'] = []
            for prop, only in CHECKS.get(sid, []):
                evd = os.path.join(base, 'ev_%s_%s' % (sid, prop))
                os.makedirs(evd, exist_ok=True)
                cmd = 'cd %s && VRT_CPPPO_ENV=%s VRT_EVID_DIR=%s python3 run_check.py %s --tier quick --jobs %s %s' % (
                    HERE, env, evd, prop, os.environ.get('JOBS', '8'), ('--only ' + only) if only else '')
                c = sh(cmd)
                lines = [l for l in c.stdout.splitlines() if l.startswith(('VIOLATION', 'INCONCLUSIVE', 'HARNESS-ERROR')) or ' tier=' in l]
                out['checks'].append(dict(check=prop, only=only, exit=c.returncode, detected=(c.returncode == 1 and any(l.startswith('VIOLATION') for l in lines)),
                                          output=[l[:300] for l in lines][:6]))
                print(sid, prop, 'exit', c.returncode, [l[:160] for l in lines][:3], flush=True)
        finally:
            sh('git -C /repo worktree remove --force %s' % wt)
            shutil.rmtree(env, ignore_errors=True)
        mp = os.path.join(d, 'meta.json')
        try:
            meta = json.load(open(mp))
        except Exception:
            meta = {}
        meta['evaluation'] = out
        meta['evaluated_at_repo_commit'] = sh('git -C /repo rev-parse --short HEAD').stdout.strip()
        json.dump(meta, open(mp, 'w'), indent=1)


if __name__ == '__main__':
    main(sys.argv[1:] or sorted(CHECKS))
