#!/usr/bin/env python3
"""Regenerate /verif/MANIFEST.json from the table below (kept in one place so it stays valid)."""
import json
import os

HERE = os.path.dirname(os.path.dirname(os.path.abspath(__file__)))
NA = {
    'C09': "quantifier is thread interleavings: CrossHair symbolically executes one thread; threading.Lock, GIL atomicity of list "
           "slice assignment and the socket accept loop have no encoding in it, and a hand-written SMT interleaving model would "
           "be a model of cpppo, not its code",
    'C17': "rendering/parsing go through C datetime/strftime, '%.*f' float formatting, round(float) and tz tables, all realised "
           "(made concrete) by CrossHair; the comparison clause is an IEEE-double statement that z3's FP theory left unknown and "
           "that reals would decide unsoundly",
    'C18': "depends on the filesystem, compressed readers, the wall clock and epsilon-compared double timestamps; a probed "
           "symbolic clock produced real-vs-IEEE boundary counterexamples that do not replay on the real code",
}
# property -> (one-line level text, note)
CLAIMED = {
    'C01': "per-layer round trip  b = produce(v); b == independent reference encoding; parse(b) recovers every field, consumes exactly len(b), terminal; "
           "produce(parsed) == b  -- scalars (full width), strings (<= 3..5 symbolic chars), EPATH segment shapes (values full width), status, typed data of "
           "all 14 types, encapsulation frame, CPF items, Unconnected Send, CIP commands, Logix/Object services, Multiple Service Packet offsets",
    'C02': "one frame (payload <= 3..5 symbolic bytes) + following bytes delivered under every 2-way (thorough: 3-way) chunking, byte-wise and coalesced; "
           "request stream through the real enip_srv_tcp loop truncated at every byte offset",
    'C03': "one inductive step from an arbitrary (symbolic) tag state through the real Logix.request/Object.request vs. an array "
           "model, for every integer type, service kind and addressing form; tag length 4",
    'C04': "reply_elements index arithmetic for UNBOUNDED integers (all tag lengths/starts/counts/offsets/budgets) + driven "
           "fragmented read/write transfers on 5-6 element tags for scaled budgets with unwinding assertion",
    'C05': "every (tag type, request type) integer pair with the written value symbolic over the request type's full range; every "
           "index/count/offset/supplied-values combination around the tag bounds; unknown targets; Set Attribute Single byte counts",
    'C06': "every service kind (valid and failing) with symbolic session/context/options through the real logix.process; Register with arbitrary "
           "random-source values; 2-3 pipelined frames under every 3-way chunking through the real enip_srv_tcp loop",
    'C07': "bundles of 1-2 (thorough: all pairs, some triples) members of 8 kinds with symbolic parameters from an arbitrary tag state vs. the same "
           "requests issued one by one; offset table; byte-level bundle through the real MSP parser",
    'C08': "every byte string <= 3..5 bytes through 17 library parsers and through logix.process (5 envelope kinds, embedded requests); 9 valid frames with "
           "one byte replaced by every value at every position; no tag change, locks released, next request served",
    'C10': "24 library machines with a symbolic limit (data path) 0..len+1, symbolic leading bytes and symbolic 2-block chaining; length-field vs limit; "
           "symbolic repeat count",
    'C11': "20 curated + all 80 one-operator (thorough: 2080 two-operator) expressions, built by the real from_regex, on every byte string <= 4..5 over "
           "0..255 under every two-way chunking vs. a Brzozowski-derivative oracle",
    'C12': "client results for ANY depth >= 0 and ANY bundle limit >= 0 (unbounded symbolic ints) on 3 operation lists x fragment on/off through the real "
           "client over an in-process transport; route/send path separation of bundles; operation text forms from symbolic digits",
    'C13': "4-operation exchange with the server-to-client stream cut at every byte offset (5 depth/bundle configurations, operate and process APIs), "
           "client-to-server stream cut at every offset, proxy discard-and-reconnect",
    'C14': "complete small/large Forward Open sessions and unconnected multi-read / large-array sessions encoded by the independent reference encoder with "
           "symbolic field values, decoded by the reference decoder; pylogix in-process attempted in the thorough tier",
    'C15': "5 configured personalities x 5 request route-path shapes x 3 services with symbolic ports/links through the real UCMM.request; 7 textual route "
           "path forms from symbolic digits",
    'C16': "every key <= 4..6 chars over {a,b,.} looked up in a fixed tree vs. path semantics; every 2-operation (thorough: 3) history of 8 operation kinds "
           "over 12 dotted paths vs. a nested-dict model; reserved names; indexed list elements",
    'C19': "merge/shatter on 2-4 symbolic ranges with unbounded-in-bank addresses, symbolic reach/limit and a symbolic probe register",
    'C20': "streaming tnet parser on SIZE 0..5 with symbolic payload, type, following byte and chunking; agreement with tnetstrings.dump; parse(dump(v)) for "
           "ints, delimiter-alphabet strings and nested containers",
}


def main():
    props = [json.loads(l) for l in open(os.path.join(HERE, 'properties.jsonl'))]
    checks = []
    for p in props:
        i = p['id']
        if i not in CLAIMED:
            continue
        checks.append(dict(
            property_id=i,
            quick_cmd="python3 run_check.py %s --tier quick" % i,
            thorough_cmd="python3 run_check.py %s --tier thorough" % i,
            evidence_file="evidence/%s.json" % i,
            replay_cmd_template="/venv/bin/python {path}",
            engine="crosshair-z3",
            level_claimed=dict(
                category="other",
                text="Bounded symbolic execution of the real code (CrossHair 0.0.110 + z3 5.1.0): " + CLAIMED[i] +
                     ". 'Confirmed' = every execution path inside the stated bounds explored with the postcondition true; "
                     "counterexamples are replayed on the plain code before being reported; nothing outside the bounds is claimed.",
                design_ref="DESIGN.md section 3, " + i),
            level_note="trusted: CrossHair's model of Python 3.12, z3, vrt/glue.py (log statements/assert messages removed, "
                       "StructShim, constant SymbolicInt hash at whitelisted sites, state.__getitem__ case split; validated "
                       "differentially on the repo's packet fixtures at every run), stubs and bounds listed per obligation in "
                       "the evidence file",
            technique="solver-based bounded symbolic execution of the real Python code (CrossHair + z3) with counterexample replay"))
    claimed = [c['property_id'] for c in checks]
    m = dict(
        version=1, setup_cmd="sh setup.sh",
        hooks=dict(guard="CPPPO_VERIF", enable="none needed: there are no source hooks; checks import /repo's working tree directly",
                   baseline_off_cmd="cd /repo && /venv/bin/python -m pytest -ra -q -p no:cacheprovider --timeout=900 "
                                    "--continue-on-collection-errors",
                   source_commits=[], add_only=True),
        engines=[dict(name="crosshair-z3", path="run_check.py", serves_properties=claimed,
                      kind_free_text="CrossHair 0.0.110 symbolic execution of the real cpppo functions, z3 5.1.0 deciding each "
                                     "path; harness glue in vrt/, obligations in harness/")],
        checks=checks,
        notes="Exit codes of every check: 0 held within the stated bounds, 1 VIOLATION (counterexample replayed on the plain "
              "code), 2 inconclusive (a budget ran out; never reported as success), 3 harness error. Genuine defects found and "
              "repaired are listed in known_findings.json (status fixed).",
        not_applicable=[dict(property_id=k, reason=v) for k, v in NA.items()] +
                       [dict(property_id=p['id'], reason="check not built yet (work in progress; see DESIGN.md)")
                        for p in props if p['id'] not in claimed and p['id'] not in NA])
    with open(os.path.join(HERE, 'MANIFEST.json'), 'w') as f:
        json.dump(m, f, indent=1)
    print("MANIFEST.json: %d checks, %d not applicable" % (len(checks), len(m['not_applicable'])))


if __name__ == '__main__':
    main()
