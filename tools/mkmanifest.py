#!/usr/bin/env python3
"""Regenerate /verif/MANIFEST.json from the table below (kept in one place so it stays valid)."""
import json
import os

HERE = os.path.dirname(os.path.dirname(os.path.abspath(__file__)))
NA = {
    'C09': "quantifier is thread interleavings: CrossHair symbolically executes one thread; threading.Lock, GIL atomicity of list "
           "slice assignment and the socket accept loop have no encoding in it, and a hand-written SMT interleaving model would "
           "be a model of cpppo, not its code",
    'C17': "rendering/parsing go through C datetime/strftime, '%.*f' float formatting, round(float) and tz tables, all realised "
           "(made concrete) by CrossHair; the comparison clause is an IEEE-double statement that z3's FP theory left unknown and "
           "that reals would decide unsoundly",
    'C18': "depends on the filesystem, compressed readers, the wall clock and epsilon-compared double timestamps; a probed "
           "symbolic clock produced real-vs-IEEE boundary counterexamples that do not replay on the real code",
}
# property -> (one-line level text, note)
CLAIMED = {
    'C03': "one inductive step from an arbitrary (symbolic) tag state through the real Logix.request/Object.request vs. an array "
           "model, for every integer type, service kind and addressing form; tag length 4",
    'C04': "reply_elements index arithmetic for UNBOUNDED integers (all tag lengths/starts/counts/offsets/budgets) + driven "
           "fragmented read/write transfers on 5-6 element tags for scaled budgets with unwinding assertion",
    'C05': "every (tag type, request type) integer pair with the written value symbolic over the request type's full range; every "
           "index/count/offset/supplied-values combination around the tag bounds; unknown targets; Set Attribute Single byte counts",
    'C19': "merge/shatter on 2-4 symbolic ranges with unbounded-in-bank addresses, symbolic reach/limit and a symbolic probe register",
}


def main():
    props = [json.loads(l) for l in open(os.path.join(HERE, 'properties.jsonl'))]
    checks = []
    for p in props:
        i = p['id']
        if i not in CLAIMED:
            continue
        checks.append(dict(
            property_id=i,
            quick_cmd="python3 run_check.py %s --tier quick" % i,
            thorough_cmd="python3 run_check.py %s --tier thorough" % i,
            evidence_file="evidence/%s.json" % i,
            replay_cmd_template="/venv/bin/python {path}",
            engine="crosshair-z3",
            level_claimed=dict(
                category="other",
                text="Bounded symbolic execution of the real code (CrossHair 0.0.110 + z3 5.1.0): " + CLAIMED[i] +
                     ". 'Confirmed' = every execution path inside the stated bounds explored with the postcondition true; "
                     "counterexamples are replayed on the plain code before being reported; nothing outside the bounds is claimed.",
                design_ref="DESIGN.md section 3, " + i),
            level_note="trusted: CrossHair's model of Python 3.12, z3, vrt/glue.py (log statements/assert messages removed, "
                       "StructShim, constant SymbolicInt hash at whitelisted sites, state.__getitem__ case split; validated "
                       "differentially on the repo's packet fixtures at every run), stubs and bounds listed per obligation in "
                       "the evidence file",
            technique="solver-based bounded symbolic execution of the real Python code (CrossHair + z3) with counterexample replay"))
    claimed = [c['property_id'] for c in checks]
    m = dict(
        version=1, setup_cmd="sh setup.sh",
        hooks=dict(guard="CPPPO_VERIF", enable="none needed: there are no source hooks; checks import /repo's working tree directly",
                   baseline_off_cmd="cd /repo && /venv/bin/python -m pytest -ra -q -p no:cacheprovider --timeout=900 "
                                    "--continue-on-collection-errors",
                   source_commits=[], add_only=True),
        engines=[dict(name="crosshair-z3", path="run_check.py", serves_properties=claimed,
                      kind_free_text="CrossHair 0.0.110 symbolic execution of the real cpppo functions, z3 5.1.0 deciding each "
                                     "path; harness glue in vrt/, obligations in harness/")],
        checks=checks,
        notes="Exit codes of every check: 0 held within the stated bounds, 1 VIOLATION (counterexample replayed on the plain "
              "code), 2 inconclusive (a budget ran out; never reported as success), 3 harness error. Genuine defects found and "
              "repaired are listed in known_findings.json (status fixed).",
        not_applicable=[dict(property_id=k, reason=v) for k, v in NA.items()] +
                       [dict(property_id=p['id'], reason="check not built yet (work in progress; see DESIGN.md)")
                        for p in props if p['id'] not in claimed and p['id'] not in NA])
    with open(os.path.join(HERE, 'MANIFEST.json'), 'w') as f:
        json.dump(m, f, indent=1)
    print("MANIFEST.json: %d checks, %d not applicable" % (len(checks), len(m['not_applicable'])))


if __name__ == '__main__':
    main()
