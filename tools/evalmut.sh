#!/bin/sh
# evalmut.sh <property> <env dir holding cpppo -> mutated worktree> [tier] : run the property's check against the mutated copy (not /repo)
P=$1; ENVD=$2; TIER=${3:-quick}
OUT=/tmp/vrt-mut/$P-$(basename $ENVD); mkdir -p $OUT
cd "$(dirname "$0")/.."
VRT_CPPPO_ENV=$ENVD VRT_EVID_DIR=$OUT python3 run_check.py $P --tier $TIER --jobs ${JOBS:-6} ${ONLY:+--only $ONLY} > $OUT/log 2>&1
echo "rc=$?" >> $OUT/log
grep -E "VIOLATION|INCONCLUSIVE|HARNESS-ERROR|^C[0-9]+ tier|rc=" $OUT/log | cut -c1-260
