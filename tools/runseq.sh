#!/bin/sh
# run every claimed check of a tier one after the other (each uses all cores), as the evaluation harness does
TIER=${1:-quick}; OUT=${2:-/tmp/vrt-logs}; shift 2 2>/dev/null
mkdir -p "$OUT"; cd "$(dirname "$0")/.."
PROPS=${*:-$(python3 -c "import json; print(' '.join(c['property_id'] for c in json.load(open('MANIFEST.json'))['checks']))")}
for p in $PROPS; do
  s=$(date +%s); python3 run_check.py $p --tier $TIER > "$OUT/$p.log" 2>&1; rc=$?
  echo "$p rc=$rc wall=$(( $(date +%s) - s ))s :: $(grep " tier=" $OUT/$p.log | cut -c1-140)" | tee -a "$OUT/summary.txt"
done
