#!/bin/sh
# run every claimed check of a tier concurrently (CrossHair budgets are CPU time, so oversubscription is harmless); logs to $2 (default /tmp/vrt-logs)
TIER=${1:-quick}; OUT=${2:-/tmp/vrt-logs}; JOBS=${3:-3}
mkdir -p "$OUT"
cd "$(dirname "$0")/.."
for p in $(python3 -c "import json; print(' '.join(c['property_id'] for c in json.load(open('MANIFEST.json'))['checks']))"); do
  ( python3 run_check.py $p --tier $TIER --jobs $JOBS > "$OUT/$p.log" 2>&1; echo "rc=$?" >> "$OUT/$p.log" ) &
done
wait
for p in "$OUT"/*.log; do echo "$(basename $p .log): $(tail -2 $p | tr '\n' ' ' | cut -c1-180)"; done
