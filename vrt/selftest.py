"""Differential validation of the glue (DESIGN 2.2): the repo's own packet fixtures, boundary values of
every integer width and a few library calls are pushed CONCRETELY through (a) the plain code in a plain
/venv python and (b) the code with the glue active.  Any difference => exit 3 (harness error).

usage: python -m vrt.selftest [property id]      (run with the overlay venv's python)
       python -m vrt.selftest --emit             (internal: print the JSON digest of this interpreter's run)
"""
import ast
import hashlib
import json
import os
import subprocess
import sys
import time

HERE = os.path.dirname(os.path.dirname(os.path.abspath(__file__)))


def harvest_fixtures():
    """byte-string constants (>= 24 bytes) assigned at module level in the repo's enip tests"""
    out = []
    for rel in ('server/enip_test.py', 'server/logix_test.py'):
        fn = os.path.join('/repo', rel)
        try:
            tree = ast.parse(open(fn).read(), fn)
        except (OSError, SyntaxError):
            continue
        for node in tree.body:
            if isinstance(node, ast.Assign) and len(node.targets) == 1 and isinstance(node.targets[0], ast.Name):
                try:
                    v = eval(compile(ast.Expression(node.value), fn, 'eval'),
                             {'__builtins__': {}, 'bytes': bytes, 'bytearray': bytearray})
                except Exception:
                    continue
                if isinstance(v, bytes) and len(v) >= 24:
                    out.append((node.targets[0].id, v))
    return out


def plainify(x, depth=0):
    import array
    if depth > 40:
        return '...'
    if isinstance(x, dict):
        return {str(k): plainify(v, depth + 1) for k, v in dict.items(x)}
    if isinstance(x, (list, tuple)):
        return [plainify(v, depth + 1) for v in x]
    if isinstance(x, (bytes, bytearray, array.array)):
        return list(bytearray(x))
    if isinstance(x, float):
        return repr(x)
    if isinstance(x, (int, str, bool)) or x is None:
        return x
    return repr(type(x))


def emit():
    from vrt import glue
    import cpppo
    from cpppo.server.enip import parser, device, logix, ucmm, client  # noqa: F401
    import cpppo.remote.plc_modbus as pm
    from cpppo.server import tnet, tnetstrings  # noqa: F401
    glue.activate(cpppo.automata, cpppo.dotdict, cpppo.misc, parser, device, logix, ucmm, client, pm, tnet)
    digest = {}

    # 1. packet fixtures through enip_machine + CIP + Logix.parser, and back through produce
    device.lookup_reset()
    for name, pkt in harvest_fixtures():
        rec = {}
        try:
            data = cpppo.dotdict()
            source = cpppo.chainable(pkt)
            with parser.enip_machine(context='enip') as m:
                for _ in m.run(source=source, data=data):
                    pass
                rec['term'] = m.terminal
            rec['sent'] = source.sent
            if data:
                with parser.CIP() as m:
                    for _ in m.run(path='enip', source=cpppo.peekable(data.enip.get('input', b'')), data=data):
                        pass
                if 'enip.CIP.send_data' in data:
                    for item in data.enip.CIP.send_data.CPF.item:
                        for k in ('unconnected_send.request', 'connection_data.request'):
                            if k in item:
                                req = item[k]
                                with logix.Logix.parser as m:
                                    for _ in m.run(source=cpppo.peekable(req.input), data=req):
                                        pass
                                req.reproduced = bytearray(logix.Logix.produce(req))
                data.enip.reproduced = bytearray(parser.CIP.produce(data.enip))
                data.reproduced = bytearray(parser.enip_encode(data.enip))
            rec['data'] = plainify(data)
        except Exception as exc:
            rec['exc'] = type(exc).__name__
        digest['pkt:' + name] = hashlib.sha1(json.dumps(rec, sort_keys=True).encode()).hexdigest()

    # 2. integer boundary values through every scalar parser / producer
    for cls in (parser.USINT, parser.SINT, parser.UINT, parser.INT, parser.UDINT, parser.DINT, parser.ULINT,
                parser.LINT, parser.WORD, parser.DWORD, parser.UINT_network, parser.INT_network,
                parser.UDINT_network, parser.DINT_network, parser.REAL, parser.LREAL, parser.BOOL):
        size = cls.struct_calcsize
        vals = []
        for pat in (0x00, 0x01, 0x7f, 0x80, 0xff):
            for pos in range(size):
                b = bytearray(size)
                b[pos] = pat
                vals.append(bytes(b))
            vals.append(bytes(bytearray([pat] * size)))
        res = []
        for b in vals:
            d = cpppo.dotdict()
            src = cpppo.peekable(b)
            with cls() as m:
                for _ in m.run(source=src, data=d):
                    pass
            v = d[cls.__name__]
            try:
                back = list(bytearray(cls.produce(v)))
            except Exception as exc:
                back = type(exc).__name__
            res.append((list(b), repr(v), src.sent, back))
        digest['type:' + cls.__name__] = hashlib.sha1(json.dumps(res).encode()).hexdigest()

    # 3. library calls
    digest['merge'] = repr([list(pm.merge(r, reach=k)) for k in (1, 5, 50) for r in (
        [(1, 2), (2, 3), (40001, 10), (40020, 3), (9999, 2)], [(40001, 130), (40131, 5), (30001, 200)])])
    t = []
    for s in (b'5:hello,', b'0:~', b'3:123#', b'4:true!tail', b'12:1:a,2:bc,1:z,]'):
        d = cpppo.dotdict()
        src = cpppo.peekable(s)
        try:
            with tnet.tnet_machine() as m:
                for _ in m.run(source=src, data=d):
                    pass
                t.append((plainify(d), src.sent, m.terminal))
        except Exception as exc:
            t.append(type(exc).__name__)
    digest['tnet'] = repr(t)
    r = []
    for rx, inp in (('a(b|c)*d', b'abcbd!'), ('[^a]+a?', b'xyzab'), ('(ab){1,2}', b'ababab'), ('.*', b'')):
        d = cpppo.dotdict()
        src = cpppo.peekable(inp)
        try:
            with cpppo.regex_bytes(initial=rx, context='r', terminal=True) as m:
                for _ in m.run(source=src, data=d):
                    pass
                r.append((plainify(d), src.sent, m.terminal))
        except Exception as exc:
            r.append((type(exc).__name__, src.sent))
    digest['regex'] = repr(r)
    digest['_mode'] = 'symbolic-glue' if glue.SYMBOLIC else 'plain'
    digest['_delog'] = [glue.STATS['delog_functions'], glue.STATS['delog_removed']]
    sys.stdout.write('\nVRT-DIGEST ' + json.dumps(digest, sort_keys=True) + '\n')


def grab(cmd, env):
    p = subprocess.run(cmd, env=env, cwd=HERE, capture_output=True, text=True)
    for line in p.stdout.splitlines():
        if line.startswith('VRT-DIGEST '):
            return json.loads(line[11:])
    sys.stdout.write("selftest: no digest from %r\n%s\n%s\n" % (cmd, p.stdout[-2000:], p.stderr[-4000:]))
    sys.exit(3)


def main():
    t0 = time.time()
    env = dict(os.environ)
    env['PYTHONPATH'] = HERE
    env.pop('VRT_PLAIN', None)
    a = grab([sys.executable, '-m', 'vrt.selftest', '--emit'], env)
    env['VRT_PLAIN'] = '1'
    b = grab(['/venv/bin/python', '-m', 'vrt.selftest', '--emit'], env)
    if a['_mode'] != 'symbolic-glue' or b['_mode'] != 'plain':
        print("selftest: modes wrong: %s / %s" % (a['_mode'], b['_mode']))
        sys.exit(3)
    bad = [k for k in sorted(set(a) | set(b)) if not k.startswith('_') and a.get(k) != b.get(k)]
    if bad:
        print("selftest: glue changes behaviour on: %s" % bad)
        sys.exit(3)
    n = len([k for k in a if not k.startswith('_')])
    print("selftest ok: %d fixture groups identical with and without glue (%d packets; delog %d functions / %d log "
          "statements) in %.1fs" % (n, len([k for k in a if k.startswith('pkt:')]), a['_delog'][0], a['_delog'][1],
                                    time.time() - t0))


if __name__ == '__main__':
    if '--emit' in sys.argv:
        emit()
    else:
        main()
