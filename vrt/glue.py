"""Harness-side glue that makes the *real* cpppo code symbolically executable by CrossHair 0.0.110.

Nothing here edits /repo.  Activated on import unless VRT_PLAIN=1 (replay mode: plain cpppo, no
CrossHair, none of this) -- see DESIGN.md section 2.2.  Each item is part of the trusted base and is
validated differentially against the untouched code by vrt/selftest.py.

 1. delog       : recompile functions from current source with log statements removed
 2. StructShim  : arithmetic struct.Struct for integer formats
 3. const hash  : SymbolicInt.__hash__ constant (whitelisted call sites only, else recorded)
 4. getitem     : case split of state.__getitem__ on symbolic symbols
 5. tobytes     : SymbolicArray.tobytes keeps bytes symbolic
 6. stubs       : random / timer (installed by the drivers that need them)
"""
from __future__ import annotations

import ast
import atexit
import copy
import inspect
import json
import logging
import os
import struct as _struct
import sys
import time
import types

PLAIN = bool(os.environ.get('VRT_PLAIN'))
try:
    if PLAIN:
        raise ImportError("plain mode")
    import crosshair  # noqa: F401
    from crosshair.libimpl.builtinslib import SymbolicInt, SymbolicBytes
    from crosshair.libimpl.arraylib import SymbolicArray
    from crosshair.tracers import NoTracing
    SYMBOLIC = True
except ImportError:
    SYMBOLIC = False

logging.disable(logging.CRITICAL)

import cpppo.automata as _automata  # noqa: E402   (imports cpppo.misc, cpppo.dotdict too)

STATS = dict(delog_functions=0, delog_removed=0, delog_skipped=[], hash_sites={}, hash_foreign=[],
             solver_checks=0, solver_seconds=0.0, getitem_splits=0)


# ---------------------------------------------------------------------------------------------
# 2. struct.Struct shim
# ---------------------------------------------------------------------------------------------
class StructShim(object):
    """struct.Struct whose integer unpacking is plain arithmetic (sum b_i * 256^i, two's
    complement), so symbolic bytes stay symbolic.  Float formats go to the real struct on realised
    bytes (floats are concrete in every harness)."""

    def __init__(self, fmt):
        self.format = fmt
        self.size = _struct.calcsize(fmt)

    def unpack_from(self, buffer, offset=0):
        b = list(buffer[offset:offset + self.size])
        fmt = self.format
        code = fmt[-1]
        if code in 'bBhHiIqQ' and len(fmt) <= 2:
            if len(b) < self.size:
                raise _struct.error("unpack_from requires a buffer of at least %d bytes" % self.size)
            seq = list(reversed(b)) if fmt[0] in '>!' else b
            v = 0
            for i, x in enumerate(seq):
                v += x << (8 * i)
            if code in 'bhiq' and v >= (1 << (8 * self.size - 1)):
                v -= 1 << (8 * self.size)
            return (v,)
        return _struct.unpack_from(fmt, bytes(bytearray(int(x) for x in b)))

    def unpack(self, buffer):
        return self.unpack_from(buffer)

    def pack(self, *a):
        return _struct.pack(self.format, *a)


# ---------------------------------------------------------------------------------------------
# 1. de-logging recompilation
# ---------------------------------------------------------------------------------------------
class _Strip(ast.NodeTransformer):
    NAMES = ('log', 'logging')

    def __init__(self):
        self.removed = 0

    def visit_Expr(self, node):
        v = node.value
        if isinstance(v, ast.BoolOp) and self._islog(v.values[-1]) and all(
                self._islogtest(t) for t in v.values[:-1]):
            self.removed += 1
            return ast.copy_location(ast.Pass(), node)
        if self._islog(v):
            self.removed += 1
            return ast.copy_location(ast.Pass(), node)
        return node

    def visit_Assign(self, node):
        # seen = set() / set([crumb])   (loop-detection crumbs)  ->  _vrt_CrumbSet(...)   [glue item 7]
        self.generic_visit(node)
        if (len(node.targets) == 1 and isinstance(node.targets[0], ast.Name) and node.targets[0].id == 'seen'
                and isinstance(node.value, ast.Call) and isinstance(node.value.func, ast.Name) and node.value.func.id == 'set'):
            node.value.func = ast.copy_location(ast.Name(id='_vrt_CrumbSet', ctx=ast.Load()), node.value.func)
            self.removed += 1
        return node

    def visit_Assert(self, node):
        # the message of a failing assert is formatted with (possibly symbolic) values: drop it
        if node.msg is not None:
            node.msg = None
            self.removed += 1
        return node

    def visit_Raise(self, node):
        # raise X( "fmt" % args ) / raise X( "fmt".format( args ))  ->  raise X()
        e = node.exc
        if isinstance(e, ast.Call) and len(e.args) == 1 and not e.keywords and self._isfmt(e.args[0]):
            e.args = []
            self.removed += 1
        return node

    @staticmethod
    def _isfmt(a):
        if isinstance(a, ast.BinOp) and isinstance(a.op, ast.Mod):
            l = a.left
            while isinstance(l, ast.BinOp) and isinstance(l.op, ast.Add):
                l = l.left
            return isinstance(l, ast.Constant) and isinstance(l.value, str)
        if isinstance(a, ast.Call) and isinstance(a.func, ast.Attribute) and a.func.attr == 'format':
            return isinstance(a.func.value, ast.Constant) and isinstance(a.func.value.value, str)
        return False

    def visit_ExceptHandler(self, node):
        # In an except handler whose log statement was stripped, assignments that only fed that log statement (names never
        # loaded anywhere else in the function: `where`, `memory`, `future`, `pos`, `processed`) format the -- possibly
        # symbolic -- input with repr(); drop them too.  Recorded in STATS['delog_dead_stores'].
        before = self.removed
        self.generic_visit(node)
        if self.removed > before:
            node._vrt_stripped = True
        # [glue item 11] a bare `except:` that does NOT re-raise (main.enip_srv_udp's per-datagram handler) would also swallow
        # CrossHair's own path-steering exceptions (BaseException subclasses) and corrupt the exploration: narrow it to
        # `except Exception:` -- identical for every exception the code under analysis can raise.
        if node.type is None and not any(isinstance(n, ast.Raise) and n.exc is None for n in ast.walk(node)):
            node.type = ast.copy_location(ast.Name(id='Exception', ctx=ast.Load()), node)
            STATS.setdefault('delog_bare_except', 0)
            STATS['delog_bare_except'] += 1
        return node

    def visit_If(self, node):
        # `if log.isEnabledFor( X ): <only log statements>`  ->  pass
        self.generic_visit(node)
        if self._islogtest(node.test) and not node.orelse and all(isinstance(s, ast.Pass) for s in node.body):
            return ast.copy_location(ast.Pass(), node)
        return node

    def _islogtest(self, t):
        return (isinstance(t, ast.Call) and isinstance(t.func, ast.Attribute)
                and t.func.attr == 'isEnabledFor' and isinstance(t.func.value, ast.Name)
                and t.func.value.id in self.NAMES)

    def _islog(self, v):
        if isinstance(v, ast.Call) and isinstance(v.func, ast.Attribute):
            f = v.func.value
            if isinstance(f, ast.Name) and f.id in self.NAMES:
                return v.func.attr in ('debug', 'info', 'detail', 'normal', 'warning', 'error', 'critical',
                                       'exception', 'log', 'notice', 'trace')
        if isinstance(v, ast.Call) and isinstance(v.func, ast.IfExp):   # ( log.a if x else log.b )( ... )
            return all(isinstance(b, ast.Attribute) and isinstance(b.value, ast.Name) and b.value.id in self.NAMES
                       for b in (v.func.body, v.func.orelse))
        return False


def _dead_stores(fnode, qualname):
    """see _Strip.visit_ExceptHandler"""
    changed = True
    while changed:
        changed = False
        loads = set()
        for n in ast.walk(fnode):
            if isinstance(n, ast.Name) and isinstance(n.ctx, ast.Load):
                loads.add(n.id)
        for h in ast.walk(fnode):
            if not (isinstance(h, ast.ExceptHandler) and getattr(h, '_vrt_stripped', False)):
                continue
            for i, st in enumerate(h.body):
                if isinstance(st, ast.Assign) and all(isinstance(t, ast.Name) and t.id not in loads for t in st.targets):
                    STATS.setdefault('delog_dead_stores', []).append("%s:%s" % (qualname, ",".join(t.id for t in st.targets)))
                    h.body[i] = ast.copy_location(ast.Pass(), st)
                    changed = True


_trees = {}


def _module_defs(filename):
    if filename not in _trees:
        with open(filename) as f:
            tree = ast.parse(f.read(), filename)
        defs = {}
        for n in ast.walk(tree):
            if isinstance(n, (ast.FunctionDef,)):
                first = min([n.lineno] + [d.lineno for d in n.decorator_list])
                defs[(n.name, first)] = n
        _trees[filename] = defs
    return _trees[filename]


def _find_code(code, name):
    for c in code.co_consts:
        if isinstance(c, types.CodeType):
            if c.co_name == name:
                return c
            r = _find_code(c, name)
            if r is not None:
                return r
    return None


def delog_function(owner, name):
    """Rebind owner.name to a function compiled from the CURRENT source with log statements replaced by
    `pass`.  Globals, defaults, kw-defaults, closure (the __class__ cell of methods that use super),
    attributes (e.g. setup.lock) and qualname are those of the original function object."""
    fn = inspect.getattr_static(owner, name)
    kind = None
    if isinstance(fn, (classmethod, staticmethod)):
        kind = type(fn)
        fn = fn.__func__
    filename = fn.__code__.co_filename
    node = _module_defs(filename)[(fn.__name__, fn.__code__.co_firstlineno)]
    s = _Strip()
    node = s.visit(copy.deepcopy(node))
    if not s.removed:
        return 0
    _dead_stores(node, fn.__qualname__)
    node.decorator_list = []
    if fn.__code__.co_freevars == ('__class__',):
        # compile inside a dummy class so that the compiler creates the __class__ cell reference
        body = ast.ClassDef(name='_vrt_cls', bases=[], keywords=[], body=[node], decorator_list=[])
        if sys.version_info >= (3, 12):
            body.type_params = []
        ast.copy_location(body, node)
    else:
        assert not fn.__code__.co_freevars
        body = node
    mod = ast.Module(body=[body], type_ignores=[])
    ast.fix_missing_locations(mod)
    code = _find_code(compile(mod, filename, 'exec'), fn.__name__)
    assert code is not None and code.co_freevars == fn.__code__.co_freevars, (fn.__qualname__, code and code.co_freevars)
    new = types.FunctionType(code, fn.__globals__, fn.__name__, fn.__defaults__, fn.__closure__)
    new.__kwdefaults__ = fn.__kwdefaults__
    new.__dict__.update(fn.__dict__)
    new.__qualname__ = fn.__qualname__
    new.__module__ = fn.__module__
    new.__doc__ = fn.__doc__
    new.__annotations__ = dict(getattr(fn, '__annotations__', {}) or {})
    if kind:
        new = kind(new)
    setattr(owner, name, new)
    return s.removed


_DECORATED_OK = ('classmethod', 'staticmethod')


def delog_all(*modules):
    """Recompile every plain function / method defined in the given modules (from the current
    source file), log statements stripped.  Closures (free variables other than __class__),
    lambdas, properties and functions wrapped by other decorators are left alone (listed)."""
    for mod in modules:
        todo = []
        for name, obj in list(vars(mod).items()):
            if inspect.isfunction(obj) and obj.__module__ == mod.__name__:
                todo.append((mod, name, obj))
            elif inspect.isclass(obj) and obj.__module__ == mod.__name__:
                for an, av in list(vars(obj).items()):
                    f = av.__func__ if isinstance(av, (classmethod, staticmethod)) else av
                    if inspect.isfunction(f) and f.__module__ == mod.__name__:
                        todo.append((obj, an, f))
        for owner, name, f in todo:
            if f.__name__ == '<lambda>':
                continue
            if set(f.__code__.co_freevars) - {'__class__'}:
                STATS['delog_skipped'].append(f.__qualname__)
                continue
            try:
                key = (f.__name__, f.__code__.co_firstlineno)
                if key not in _module_defs(f.__code__.co_filename):
                    STATS['delog_skipped'].append(f.__qualname__)
                    continue
                node = _module_defs(f.__code__.co_filename)[key]
                decos = [d.id if isinstance(d, ast.Name) else '?' for d in node.decorator_list]
                if any(d not in _DECORATED_OK for d in decos):
                    STATS['delog_skipped'].append(f.__qualname__)
                    continue
                n = delog_function(owner, name)
            except (OSError, SyntaxError) as exc:     # pragma: no cover
                raise RuntimeError("delog failed for %s: %r" % (f.__qualname__, exc))
            if n:
                STATS['delog_functions'] += 1
                STATS['delog_removed'] += n


class CrumbSet(object):
    """Drop-in for the `seen = set()` of (state, next symbol, sent) crumbs in state.run / dfa_base.delegate.
    Same membership semantics as a set of tuples (states compare by identity, `sent` is a concrete int), but
    a crumb is only compared symbolically (next-symbol equality => solver query) with crumbs of the SAME state
    and SAME sent count.  CrossHair's own set model scans linearly and decides one symbolic tuple equality per
    stored crumb, which is quadratic in the input length."""

    def __init__(self, items=()):
        self.buckets = {}
        self.other = []
        for c in items:
            self.add(c)

    @staticmethod
    def _key(c):
        if type(c) is tuple and len(c) == 3 and type(c[2]) is int:
            return (id(c[0]), c[2])
        return None

    def add(self, c):
        k = self._key(c)
        if k is None:
            self.other.append(c)
        else:
            self.buckets.setdefault(k, []).append(c)

    def __contains__(self, c):
        k = self._key(c)
        if k is None:
            return any(o == c for o in self.other)
        for o in self.buckets.get(k, ()):
            a, b = o[1], c[1]
            if a is b:
                return True
            if a is None or b is None:
                continue
            if a == b:
                return True
        return bool(self.other) and any(o == c for o in self.other)


_automata._vrt_CrumbSet = CrumbSet


# ---------------------------------------------------------------------------------------------
# 3/4/5. CrossHair-specific patches
# ---------------------------------------------------------------------------------------------
class _Miss(object):
    def __repr__(self):
        return "<MISS>"

    def __hash__(self):
        return 0x31337


MISS = _Miss()

# Frames from which hashing a symbolic int is known to be harmless (loop-detection crumbs in
# automata.py; the {size, variable, ...} None-test set in defaults.Connection.__init__).
HASH_WHITELIST = {
    ('automata.py', 'run'), ('automata.py', 'delegate'), ('automata.py', 'loop'),
    ('defaults.py', '__init__'),
    ('device.py', 'forward_open'),      # Connection_Manager.forwards keyed by (host, port, O->T id): equal hashes => dict falls back to ==, which stays symbolic
}


def _install_symbolic():
    import z3
    _automata.struct = types.SimpleNamespace(
        Struct=StructShim, calcsize=_struct.calcsize, pack=_struct.pack, unpack=_struct.unpack,
        unpack_from=_struct.unpack_from, pack_into=_struct.pack_into, error=_struct.error)

    def _hash(self):
        with NoTracing():
            f = sys._getframe(1)
            site = None
            while f is not None:
                fn = f.f_code.co_filename
                if '/crosshair/' not in fn and not fn.startswith('<') and fn != __file__:
                    site = (os.path.basename(fn), f.f_code.co_name)
                    break
                f = f.f_back
            key = "%s:%s" % site if site else "?"
            STATS['hash_sites'][key] = STATS['hash_sites'].get(key, 0) + 1
            if site not in HASH_WHITELIST and key not in STATS['hash_foreign']:
                STATS['hash_foreign'].append(key)
        return 0x5EED5EED
    SymbolicInt.__hash__ = _hash

    _orig_getitem = _automata.state.__getitem__

    def _getitem(self, inp):
        with NoTracing():
            sym = isinstance(inp, SymbolicInt)
        if sym:
            with NoTracing():
                # a symbolic int whose z3 term is a numeral (bytes that merely travelled through a symbolic container)
                # needs no case split
                const = None
                try:
                    simp = z3.simplify(inp.var)
                    if z3.is_int_value(simp):
                        const = simp.as_long()
                except Exception:
                    const = None
            if const is not None:
                STATS['getitem_const'] = STATS.get('getitem_const', 0) + 1
                return _orig_getitem(self, const)
            assert not self.recognizers, "vrt: recognizers not supported with symbolic symbols"
            assert self.encoder is None, "vrt: encoder not supported with symbolic symbols"
            STATS['getitem_splits'] += 1
            for k in sorted(k for k in dict.keys(self) if type(k) is int and k >= 0):
                if inp == k:
                    return _orig_getitem(self, k)
            return _orig_getitem(self, MISS)
        return _orig_getitem(self, inp)
    _getitem.__wrapped__ = _orig_getitem
    _automata.state.__getitem__ = _getitem

    SymbolicArray.tobytes = lambda self: SymbolicBytes(list(self.inner))

    # solver statistics
    import z3
    _check = z3.Solver.check

    def check(self, *a, **kw):
        t = time.perf_counter()
        try:
            return _check(self, *a, **kw)
        finally:
            STATS['solver_checks'] += 1
            STATS['solver_seconds'] += time.perf_counter() - t
    z3.Solver.check = check


if SYMBOLIC:
    _install_symbolic()


def _copy_slices(device):
    """glue item 10: with SYMBOLIC slice bounds CrossHair returns a lazy *view* of a list (crosshair.simplestructs.SliceView), so the
    result of `attribute[beg:end]` would change when the attribute is written later -- not Python semantics (a list slice is a
    copy).  Restore them: copy the slice result.  For the plain interpreter this wrapper is the identity."""
    if getattr(device.Attribute.__getitem__, '_vrt', False):
        return
    orig = device.Attribute.__getitem__

    def __getitem__(self, key):
        r = orig(self, key)
        if isinstance(key, slice) and not isinstance(r, (str, bytes)):
            return [x for x in r]
        return r
    __getitem__._vrt = True
    __getitem__.__wrapped__ = orig
    device.Attribute.__getitem__ = __getitem__


def activate(*modules):
    """Called by a harness module after importing the cpppo modules it drives: de-log them (symbolic
    mode only)."""
    if SYMBOLIC:
        delog_all(*modules)
        for m in modules:
            if m.__name__ == 'cpppo.server.enip.device':
                _copy_slices(m)


def dump_stats():
    path = os.environ.get('VRT_STATS')
    if path:
        with open(path, 'w') as f:
            json.dump(STATS, f)


atexit.register(dump_stats)
