"""In-process simulator driver (no sockets, no threads): frames -> replies with the REAL code:
parser.enip_machine (framing) -> logix.process (UCMM / Connection Manager / Message Router / Logix) ->
parser.enip_encode.  Tags are real device.Attribute objects created through logix.setup.
"""
import cpppo
from cpppo.server.enip import parser, device, logix, ucmm as ucmm_mod

from . import glue

OBJECT_CLASSES = (device.Identity, device.Message_Router, logix.Logix, device.Connection_Manager, device.TCPIP,
                  device.Logical_Segments, logix.Unknown_Object, ucmm_mod.UCMM)

INT_TYPES = [parser.SINT, parser.USINT, parser.INT, parser.UINT, parser.DINT, parser.UDINT, parser.LINT, parser.ULINT]
RANGE = {'BOOL': (0, 1), 'SINT': (-128, 127), 'USINT': (0, 255), 'INT': (-32768, 32767), 'UINT': (0, 65535),
         'DINT': (-2 ** 31, 2 ** 31 - 1), 'UDINT': (0, 2 ** 32 - 1), 'LINT': (-2 ** 63, 2 ** 63 - 1),
         'ULINT': (0, 2 ** 64 - 1)}
SIZE = {'BOOL': 1, 'SINT': 1, 'USINT': 1, 'INT': 2, 'UINT': 2, 'DINT': 4, 'UDINT': 4, 'LINT': 8, 'ULINT': 8,
        'REAL': 4, 'LREAL': 8}


class DetRandom(object):
    """Stub for `random` in ucmm/device: a deterministic (or harness supplied) stream."""
    def __init__(self):
        self.stream = []
        self.n = 1000

    def randint(self, a, b):
        if self.stream:
            return self.stream.pop(0)
        self.n += 1
        return self.n


RANDOM = DetRandom()


def install_stubs():
    """random -> deterministic stream in ucmm/device (session handles, connection ids)"""
    ucmm_mod.random = RANDOM
    device.random = RANDOM


def reset(ucmm_class=None):
    device.lookup_reset()
    logix.setup_reset()
    for c in OBJECT_CLASSES:
        c.max_instance = 0
    ucmm_mod.UCMM.sessions = {}
    device.Connection_Manager.forwards = {}
    RANDOM.stream = []
    RANDOM.n = 1000


def make_tags(spec):
    """spec: { name: (type class, length[, path dict]) } -> tags dotdict as main() builds it"""
    tags = cpppo.dotdict()
    for name, s in spec.items():
        cls, n = s[0], s[1]
        path = s[2] if len(s) > 2 else None
        if isinstance(path, str):           # '@cls/ins/att' as main() parses it
            segments, elm, cnt = device.parse_path_elements(path)
            path = {'segment': segments}
        default = 0.0 if cls in (parser.REAL, parser.LREAL) else ('' if cls in (parser.SSTRING, parser.STRING) else 0)
        att = device.Attribute(name, cls, default=(default if n == 1 else [default] * n))
        e = cpppo.dotdict()
        e.attribute = att
        e.path = path
        e.error = 0
        dict.__setitem__(tags, name, e)
    return tags


def setup(spec, **kw):
    """reset + create the simulator's CIP objects and tags; returns the tags dict"""
    reset()
    install_stubs()
    tags = make_tags(spec)
    logix.setup(tags=tags, **kw)
    return tags


def attribute(name):
    return device.lookup(*device.resolve_tag(name))


def seg(**kw):
    return cpppo.dotdict(kw)


def tagpath(name, element=None):
    segs = [seg(symbolic=name)]
    if element is not None:
        segs.append(seg(element=element))
    return {'segment': segs}


def numpath(cls, ins, att=None, element=None):
    segs = [seg(**{'class': cls}), seg(instance=ins)]
    if att is not None:
        segs.append(seg(attribute=att))
    if element is not None:
        segs.append(seg(element=element))
    return {'segment': segs}


def parse_frame(source):
    data = cpppo.dotdict()
    with parser.enip_machine(context='enip', terminal=True) as m:
        for mch, sta in m.run(path='request', source=source, data=data):
            pass
        assert m.terminal
    return data


def request_frame(session, context, cipdata, command=None, options=0, status=0):
    enip = cpppo.dotdict()
    enip.session_handle = session
    enip.options = options
    enip.status = status
    enip.sender_context = {}
    enip.sender_context.input = bytearray(context)
    if command is not None:
        enip.command = command
    enip.CIP = cipdata
    enip.input = bytearray(parser.CIP.produce(enip))
    return parser.enip_encode(enip)


def send_rr(req, route_path=None, send_path=None, produce=None, wrapper=None):
    """CIP.send_data carrying `req` (a Logix/Object request dict) as an Unconnected Send (with the
    0x52 wrapper iff route_path/send_path/wrapper) -- built with the library's own producers."""
    cip = cpppo.dotdict()
    cip.send_data = {}
    sd = cip.send_data
    sd.interface = 0
    sd.timeout = 8
    sd.CPF = {}
    sd.CPF.item = [cpppo.dotdict(), cpppo.dotdict()]
    sd.CPF.item[0].type_id = 0
    sd.CPF.item[1].type_id = 0xb2
    sd.CPF.item[1].unconnected_send = {}
    us = sd.CPF.item[1].unconnected_send
    if send_path or route_path is not None or wrapper:
        us.service = 0x52
        us.status = 0
        us.priority = 5
        us.timeout_ticks = 157
        us.path = {'segment': [cpppo.dotdict(s) for s in (send_path or [{'class': 6}, {'instance': 1}])]}
        if route_path is not None:
            us.route_path = {'segment': [cpppo.dotdict(s) for s in route_path]}
    us.request = req
    us.request.input = bytearray((produce or logix.Logix.produce)(us.request))
    return cip


def process(frame_bytes, addr=('127.0.0.1', 12345), **kw):
    """one complete frame -> (proceed, reply bytes or None, data)"""
    data = parse_frame(cpppo.peekable(frame_bytes))
    proceed = logix.process(addr, data=data, **kw)
    rpy = None
    if proceed and 'response.enip' in data:
        rpy = parser.enip_encode(data.response.enip)
    return proceed, rpy, data


def register_frame(context=b'\x00' * 8):
    cip = cpppo.dotdict()
    cip.register = {}
    cip.register.options = 0
    cip.register.protocol_version = 1
    return request_frame(0, context, cip)


def unregister_frame(session, context=b'\x00' * 8):
    cip = cpppo.dotdict()
    cip.unregister = True
    return request_frame(session, context, cip)


def snapshot(names):
    """values of the named tags (copies)"""
    out = {}
    for n in names:
        a = attribute(n)
        out[n] = list(a.value) if not a.scalar else [a.value]
    return out
