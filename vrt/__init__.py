"""vrt -- runtime support for solver-based (CrossHair/z3) checking of the real cpppo code.

Importing `vrt.glue` activates the symbolic-execution glue when CrossHair is importable and
VRT_PLAIN is not set; in "plain" mode (replay) nothing of cpppo is touched.
"""
