"""Run CrossHair (z3) on ONE obligation and print a JSON verdict on the last stdout line.

usage: python -m vrt.worker <harness module> <function> <per_condition_timeout> <per_path_timeout>

Verdicts:  confirmed | refuted | unknown | pre_unsat | error
"""
import json
import os
import random
import resource
import sys
import time
import traceback


def main(argv):
    modname, fname, cond_to, path_to = argv[0], argv[1], float(argv[2]), float(argv[3])
    random.seed(int(os.environ.get('VERIF_SEED', '0') or 0))
    sys.setrecursionlimit(10000)
    out = dict(module=modname, function=fname, verdict='error', messages=[], per_condition_timeout=cond_to,
               per_path_timeout=path_to)
    t0 = time.time()
    try:
        from crosshair.core_and_libs import analyze_function, run_checkables
        from crosshair.options import AnalysisOptionSet, AnalysisKind
        from crosshair.core import DEFAULT_OPTIONS  # noqa: F401
        from crosshair.statespace import MessageType
        from crosshair.pure_importer import prefer_pure_python_imports
        import collections
        import importlib
        with prefer_pure_python_imports():
            mod = importlib.import_module(modname)
            from vrt import glue
            fn = getattr(mod, fname)
            stats = collections.Counter()
            options = AnalysisOptionSet(
                analysis_kind=[AnalysisKind.PEP316], per_condition_timeout=cond_to, per_path_timeout=path_to,
                report_all=True, max_uninteresting_iterations=sys.maxsize, stats=stats)
            checkables = analyze_function(fn, options)
            if not checkables:
                out['verdict'] = 'error'
                out['messages'].append(dict(state='no_conditions', message='no checkable conditions'))
            else:
                msgs = run_checkables(checkables)
                states = []
                for m in msgs:
                    out['messages'].append(dict(state=m.state.name, message=m.message, line=m.line,
                                                traceback=(m.traceback or '')[-3000:]))
                    states.append(m.state)
                if not states:
                    out['verdict'] = 'unknown'
                elif any(s in (MessageType.POST_FAIL, MessageType.POST_ERR, MessageType.EXEC_ERR) for s in states):
                    out['verdict'] = 'refuted'
                elif any(s in (MessageType.SYNTAX_ERR, MessageType.IMPORT_ERR) for s in states):
                    out['verdict'] = 'error'
                elif any(s == MessageType.PRE_UNSAT for s in states):
                    out['verdict'] = 'pre_unsat'
                elif any(s == MessageType.CANNOT_CONFIRM for s in states):
                    out['verdict'] = 'unknown'
                elif all(s == MessageType.CONFIRMED for s in states):
                    out['verdict'] = 'confirmed'
            out['crosshair_stats'] = {str(k): v for k, v in stats.items()}
            g = dict(glue.STATS)
            out['glue'] = dict(solver_checks=g['solver_checks'], solver_seconds=round(g['solver_seconds'], 3),
                               hash_sites=g['hash_sites'], hash_foreign=g['hash_foreign'],
                               getitem_splits=g['getitem_splits'], delog_functions=g['delog_functions'],
                               delog_removed=g['delog_removed'])
            if g['hash_foreign']:
                out['verdict'] = 'error'
                out['messages'].append(dict(state='glue', message='symbolic int hashed at non-whitelisted site(s): %r'
                                            % g['hash_foreign']))
    except BaseException as exc:  # noqa
        out['verdict'] = 'error'
        out['messages'].append(dict(state='exception', message=repr(exc), traceback=traceback.format_exc()[-4000:]))
    ru = resource.getrusage(resource.RUSAGE_SELF)
    out['cpu_s'] = round(ru.ru_utime + ru.ru_stime, 2)
    out['wall_s'] = round(time.time() - t0, 2)
    out['maxrss_mb'] = ru.ru_maxrss // 1024
    sys.stdout.write("\nVRT-RESULT " + json.dumps(out) + "\n")
    sys.stdout.flush()
    return 0


if __name__ == '__main__':
    os._exit(main(sys.argv[1:]))
