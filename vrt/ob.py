"""Obligation registry.

An obligation is a module-level harness function with a PEP316 docstring (`pre:` lines, `post: _`)
that drives real cpppo code with symbolic arguments and returns True iff the property's assertion
held.  `@obligation(...)` records its metadata and creates the reachability twin `<name>__reach`
(same signature and preconditions, `post: False`): CrossHair must REFUTE the twin, which shows that
at least one path satisfies the preconditions and runs the harness to its end (vacuity guard).
"""
import inspect
import json
import os

HERE = os.path.dirname(os.path.dirname(os.path.abspath(__file__)))
REGISTRY = {}     # module name -> { name: meta }


def _known_exclusions(prop, name):
    try:
        with open(os.path.join(HERE, 'known_findings.json')) as f:
            kf = json.load(f)
    except (OSError, ValueError):
        return []
    out = []
    for e in kf.get('findings', []):
        if e.get('status') == 'known' and e.get('property') == prop and name in e.get('obligations', []):
            out.append(e['predicate'])
    return out


def _register_source(fn, name, doclines):
    """CrossHair reads PEP316 conditions from the function's *source lines*; give it the effective ones
    (incl. known-finding exclusions; the twin has no file source at all)."""
    try:
        from crosshair import util
    except ImportError:
        return
    try:
        filename = inspect.getsourcefile(fn) or '<vrt>'
        line = fn.__code__.co_firstlineno
    except TypeError:
        filename, line = '<vrt>', 1
    src = ["def %s():\n" % name, '    """\n'] + ["    %s\n" % l for l in doclines] + ['    """\n', "    pass\n"]
    util._SOURCE_CACHE[fn] = (filename, line, tuple(src))


def obligation(prop, tier='quick', timeout=120, path_timeout=30, drives=(), bounds='', symbolic=(),
               outside='', stubs=(), twin=True, twin_timeout=None, variants=None):
    """Register `f` as an obligation of property `prop`.

    tier:     'quick' (run in both tiers) or 'thorough' (thorough tier only)
    timeout:  per-condition CPU budget (s);  path_timeout: per-path CPU budget (s)
    drives:   real cpppo functions executed (for the evidence file)
    bounds:   stated bounds;  symbolic: the solver-quantified variables;  outside: what is not covered
    """
    def deco(f):
        g = f.__globals__
        name = f.__name__
        doc = inspect.cleandoc(f.__doc__ or '')
        lines = [l.strip() for l in doc.splitlines()]
        pres = [l for l in lines if l.startswith('pre:')]
        for pred in _known_exclusions(prop, name):
            pres.append('pre: not (%s)' % pred)
        raises = [l for l in lines if l.startswith('raises:')]
        posts = [l for l in lines if l.startswith('post:')]
        assert posts, "obligation %s has no post:" % name
        f.__doc__ = "\n".join(pres + raises + posts) + "\n"
        _register_source(f, name, pres + raises + posts)
        sig = inspect.signature(f)
        params = list(sig.parameters)
        meta = dict(prop=prop, name=name, tier=tier, timeout=timeout, path_timeout=path_timeout,
                    drives=list(drives), bounds=bounds, symbolic=list(symbolic) or params, outside=outside,
                    stubs=list(stubs), params=params, pre=[p[4:].strip() for p in pres], twin=None,
                    doc=[l for l in lines if l and not l.startswith(('pre:', 'post:', 'raises:'))])
        if twin:
            tname = name + '__reach'
            src = "def %s(%s):\n    %s(%s)\n    return True\n" % (tname, ", ".join(params), name, ", ".join(params))
            ns = {}
            exec(compile(src, '<twin of %s>' % name, 'exec'), g, ns)
            t = ns[tname]
            t.__annotations__ = dict(f.__annotations__)
            t.__annotations__['return'] = bool
            t.__doc__ = "\n".join(pres + raises + ["post: False"]) + "\n"
            t.__module__ = f.__module__
            _register_source(t, tname, pres + raises + ["post: False"])
            g[tname] = t
            meta['twin'] = tname
            meta['twin_timeout'] = twin_timeout or min(timeout, 120)
        REGISTRY.setdefault(f.__module__, {})[name] = meta
        return f
    return deco


def define(g, prop, name, params, body, pres, **meta):
    """Create (by exec in module namespace `g`) and register the obligation
        def <name>(<p>: int, ...) -> bool:  <body>
    params: list of names (all int) or (name, type-name) pairs; body: source lines (list or str) of the
    function body; pres: list of precondition expressions."""
    plist = []
    for p in params:
        if isinstance(p, tuple):
            plist.append("%s: %s" % p)
        else:
            plist.append("%s: int" % p)
    if isinstance(body, str):
        body = body.splitlines()
    src = "def %s(%s) -> bool:\n" % (name, ", ".join(plist)) + "".join("    %s\n" % l for l in body)
    ns = {}
    exec(compile(src, g.get('__file__', '<vrt>'), 'exec'), g, ns)
    f = ns[name]
    f.__module__ = g['__name__']
    f.__doc__ = "\n".join(["pre: %s" % p for p in pres] + ["post: _"]) + "\n"
    f.__vrt_source__ = src
    g[name] = obligation(prop, **meta)(f)
    return g[name]


def concretize(x, n):
    """x % n as a CONCRETE int: forks once per value (solver decides each comparison).  Used for cut positions / lengths that
    slice lists: slicing with a symbolic bound makes CrossHair build lazy views whose every element access is symbolic."""
    x = x % n
    for c in range(n):
        if x == c:
            return c
    return n - 1
