"""Replay a CrossHair counterexample against the PLAIN /repo code (no CrossHair, no glue).

usage (plain /venv/bin/python):  python -m vrt.replay <harness module> <function> '<json list of arg reprs>'
exit 1  = reproduced (the obligation returns false / raises on the real code)
exit 0  = not reproduced
exit 4  = precondition not met / harness problem
"""
import ast
import json
import os
import sys
import traceback

os.environ['VRT_PLAIN'] = '1'
sys.path.insert(0, os.path.dirname(os.path.dirname(os.path.abspath(__file__))))


def run(modname, fname, argreprs, witness=False):
    import importlib
    sys.setrecursionlimit(10000)
    mod = importlib.import_module(modname)
    fn = getattr(mod, fname)
    args = [ast.literal_eval(a) for a in argreprs]
    # evaluate the preconditions on the concrete arguments
    import inspect
    params = list(inspect.signature(fn).parameters)
    env = dict(vars(mod))
    env.update(zip(params, args))
    for line in (fn.__doc__ or '').splitlines():
        line = line.strip()
        if line.startswith('pre:'):
            if witness and line[4:].strip().startswith('not ('):
                continue                      # the known-finding exclusion itself: the witness lies inside it by definition
            if not eval(line[4:].strip(), env):
                print("REPLAY: precondition not met: %s" % line)
                return 4
    try:
        r = fn(*args)
    except Exception as exc:
        print("REPLAY: %s(%s) raised %r" % (fname, ", ".join(argreprs), exc))
        traceback.print_exc(file=sys.stdout)
        return 1
    print("REPLAY: %s(%s) returned %r" % (fname, ", ".join(argreprs), r))
    return 0 if r else 1


if __name__ == '__main__':
    sys.exit(run(sys.argv[1], sys.argv[2], json.loads(sys.argv[3]), witness='--witness' in sys.argv[4:]))
