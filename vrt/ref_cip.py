"""Independent reference encoder/decoder for the EtherNet/IP CIP wire format, written from the CIP
layout tables (Vol 1 App. C EPATH segments, Vol 2 encapsulation/CPF, Logix Data Access manual).

Shares no code with cpppo: only list arithmetic on ints (so it is itself symbolically executable).
Everything works on lists of ints 0..255.
"""

# CIP elementary type codes
T = dict(BOOL=0xC1, SINT=0xC2, INT=0xC3, DINT=0xC4, LINT=0xC5, USINT=0xC6, UINT=0xC7, UDINT=0xC8, ULINT=0xC9,
         REAL=0xCA, LREAL=0xCB, SSTRING=0xDA, STRING=0xD0, WORD=0xD2, DWORD=0xD3, STRUCT=0x2A0)
SIZE = {0xC1: 1, 0xC2: 1, 0xC3: 2, 0xC4: 4, 0xC5: 8, 0xC6: 1, 0xC7: 2, 0xC8: 4, 0xC9: 8, 0xCA: 4, 0xCB: 8, 0xD2: 2, 0xD3: 4}
SIGNED = {0xC2, 0xC3, 0xC4, 0xC5}


def le(v, n):
    """n-byte little-endian two's complement"""
    if v < 0:
        v = v + (1 << (8 * n))
    return [(v >> (8 * i)) & 0xFF for i in range(n)]


def be(v, n):
    return list(reversed(le(v, n)))


def un_le(b, signed=False):
    v = 0
    for i, x in enumerate(b):
        v += x << (8 * i)
    if signed and v >= 1 << (8 * len(b) - 1):
        v -= 1 << (8 * len(b))
    return v


def latin1(s):
    return [ord(c) for c in s]


# ---- EPATH ------------------------------------------------------------------------------------------------
LOGICAL = {'class': 0x20, 'instance': 0x24, 'element': 0x28, 'connection': 0x2C, 'attribute': 0x30}


def segment(seg):
    """one path segment {kind: value} (port segments: {'port': p, 'link': int | str})"""
    if 'symbolic' in seg:                        # ANSI extended symbol: 0x91, length, chars, pad to even
        s = latin1(seg['symbolic'])
        return [0x91, len(s)] + s + ([0] if len(s) % 2 else [])
    if 'port' in seg:
        port, link = seg['port'], seg['link']
        small = port < 15
        first = port if small else 15
        if isinstance(link, str):
            a = latin1(link)
            return [first | 0x10, len(a)] + ([] if small else le(port, 2)) + a + ([0] if len(a) % 2 else [])
        return [first] + ([] if small else le(port, 2)) + [link]
    for kind, code in LOGICAL.items():
        if kind in seg:
            v = seg[kind]
            if v <= 0xFF:
                return [code, v]
            if v <= 0xFFFF:
                return [code + 1, 0] + le(v, 2)
            return [code + 2, 0] + le(v, 4)    # 32-bit: element only
    raise ValueError("unknown segment %r" % (seg,))


def epath(segments, padded=False, single=False):
    body = []
    for s in segments:
        body += segment(s)
    if single:
        return body
    return [len(body) // 2] + ([0] if padded else []) + body


# ---- strings, status, typed data ----------------------------------------------------------------------------
def sstring(s):
    b = latin1(s)
    return [len(b)] + b


def string(s):
    b = latin1(s)
    return le(len(b), 2) + b + ([0] if len(b) % 2 else [])


def status(code, ext=()):
    """general status, size of additional status in words, additional status words"""
    return [code, len(ext)] + [x for w in ext for x in le(w, 2)]


def typed(tag_type, values):
    n = SIZE[tag_type]
    out = []
    for v in values:
        if tag_type == 0xC1:
            out += [0xFF if v else 0x00]
        else:
            out += le(v, n)
    return out


def untyped(tag_type, b):
    n = SIZE[tag_type]
    assert len(b) % n == 0
    vals = [un_le(b[i:i + n], tag_type in SIGNED) for i in range(0, len(b), n)]
    if tag_type == 0xC1:
        vals = [bool(v) for v in vals]
    return vals


# ---- encapsulation ---------------------------------------------------------------------------------------------
def encap(command, session, status_, context, options, payload):
    """24 byte header: command, length, session handle, status, 8 bytes sender context, options"""
    assert len(context) == 8
    return le(command, 2) + le(len(payload), 2) + le(session, 4) + le(status_, 4) + list(context) + le(options, 4) + list(payload)


def un_encap(b):
    assert len(b) >= 24
    d = dict(command=un_le(b[0:2]), length=un_le(b[2:4]), session=un_le(b[4:8]), status=un_le(b[8:12]),
             context=list(b[12:20]), options=un_le(b[20:24]))
    d['payload'] = list(b[24:24 + d['length']])
    assert len(d['payload']) == d['length']
    d['rest'] = list(b[24 + d['length']:])
    return d


def cpf(items):
    """Common Packet Format: item count, then (type id, length, data) each"""
    out = le(len(items), 2)
    for type_id, data in items:
        out += le(type_id, 2) + le(len(data), 2) + list(data)
    return out


def un_cpf(b):
    n = un_le(b[0:2])
    at = 2
    items = []
    for _ in range(n):
        tid, ln = un_le(b[at:at + 2]), un_le(b[at + 2:at + 4])
        items.append((tid, list(b[at + 4:at + 4 + ln])))
        assert len(items[-1][1]) == ln
        at += 4 + ln
    return items, list(b[at:])


def send_rr_data(cpf_items, interface=0, timeout=0):
    return le(interface, 4) + le(timeout, 2) + cpf(cpf_items)


def register(version=1, options=0):
    return le(version, 2) + le(options, 2)


def unconnected_send(request, route_segments, send_path=({'class': 6}, {'instance': 1}), priority=5, ticks=157):
    """service 0x52 to the Connection Manager: priority/tick, ticks, embedded message size, message, pad to even,
    route path size (words), reserved, route path"""
    body = [0x52] + epath(list(send_path)) + [priority, ticks] + le(len(request), 2) + list(request)
    if len(request) % 2:
        body += [0]
    rp = []
    for s in route_segments:
        rp += segment(s)
    return body + [len(rp) // 2, 0] + rp


# ---- Logix / CIP services ------------------------------------------------------------------------------------------
def read_tag(path_segments, elements):
    return [0x4C] + epath(path_segments) + le(elements, 2)


def read_frag(path_segments, elements, offset):
    return [0x52] + epath(path_segments) + le(elements, 2) + le(offset, 4)


def write_tag(path_segments, tag_type, values, elements=None):
    return [0x4D] + epath(path_segments) + le(tag_type, 2) + le(len(values) if elements is None else elements, 2) + typed(tag_type, values)


def write_frag(path_segments, tag_type, values, elements, offset):
    return [0x53] + epath(path_segments) + le(tag_type, 2) + le(elements, 2) + le(offset, 4) + typed(tag_type, values)


def get_attribute_single(path_segments):
    return [0x0E] + epath(path_segments)


def get_attributes_all(path_segments):
    return [0x01] + epath(path_segments)


def set_attribute_single(path_segments, data):
    return [0x10] + epath(path_segments) + list(data)


def get_attribute_list(path_segments, attrs):
    return [0x03] + epath(path_segments) + le(len(attrs), 2) + [x for a in attrs for x in le(a, 2)]


def multiple(requests, path=({'class': 2}, {'instance': 1})):
    """Multiple Service Packet 0x0A: count, offsets (from the count field), messages"""
    n = len(requests)
    out = [0x0A] + epath(list(path)) + le(n, 2)
    off = 2 + 2 * n
    for r in requests:
        out += le(off, 2)
        off += len(r)
    for r in requests:
        out += list(r)
    return out


def reply(service, status_code=0, ext=(), data=()):
    """generic CIP reply: service|0x80, reserved 0, general status, ext status size+words, data"""
    return [service | 0x80, 0] + status(status_code, ext) + list(data)


def un_reply(b):
    d = dict(service=b[0], reserved=b[1], status=b[2], ext_size=b[3])
    d['ext'] = [un_le(b[4 + 2 * i:6 + 2 * i]) for i in range(d['ext_size'])]
    d['data'] = list(b[4 + 2 * d['ext_size']:])
    return d


def multiple_reply(replies, status_code=0):
    n = len(replies)
    out = [0x8A, 0, status_code, 0] + le(n, 2)
    off = 2 + 2 * n
    for r in replies:
        out += le(off, 2)
        off += len(r)
    for r in replies:
        out += list(r)
    return out


def un_multiple_reply(data):
    """data = reply data of a 0x8A reply -> list of embedded reply byte lists"""
    n = un_le(data[0:2])
    offs = [un_le(data[2 + 2 * i:4 + 2 * i]) for i in range(n)]
    out = []
    for i, o in enumerate(offs):
        end = offs[i + 1] if i + 1 < n else len(data)
        out.append(list(data[o:end]))
    return out


# ---- Forward Open / Close (Connection Manager services 0x54 / 0x5B / 0x4E) ------------------------------------------
def forward_open(large, priority_tick, ticks, o_t_id, t_o_id, serial, vendor, orig_serial, multiplier,
                 o_t_rpi, o_t_ncp, t_o_rpi, t_o_ncp, transport, conn_path_segments, path=({'class': 6}, {'instance': 1})):
    w = 4 if large else 2
    cp = []
    for s in conn_path_segments:
        cp += segment(s)
    return ([0x5B if large else 0x54] + epath(list(path)) + [priority_tick, ticks] + le(o_t_id, 4) + le(t_o_id, 4)
            + le(serial, 2) + le(vendor, 2) + le(orig_serial, 4) + [multiplier, 0, 0, 0]
            + le(o_t_rpi, 4) + le(o_t_ncp, w) + le(t_o_rpi, 4) + le(t_o_ncp, w) + [transport] + [len(cp) // 2] + cp)


def forward_close(priority_tick, ticks, serial, vendor, orig_serial, conn_path_segments, path=({'class': 6}, {'instance': 1})):
    cp = []
    for s in conn_path_segments:
        cp += segment(s)
    return ([0x4E] + epath(list(path)) + [priority_tick, ticks] + le(serial, 2) + le(vendor, 2) + le(orig_serial, 4)
            + [len(cp) // 2, 0] + cp)


def ncp(size, variable=False, priority=0, ctype=0, redundant=False, large=False):
    """network connection parameters word: redundant owner, connection type, priority, fixed/variable, size"""
    if large:
        return (int(redundant) << 31) | (ctype << 29) | (priority << 26) | (int(variable) << 25) | size
    return (int(redundant) << 15) | (ctype << 13) | (priority << 10) | (int(variable) << 9) | size


def connected_data(conn_id, sequence, request):
    """SendUnitData CPF items: connected address item 0xA1 (connection id) + connected data item 0xB1 (sequence, message)"""
    return [(0xA1, le(conn_id, 4)), (0xB1, le(sequence, 2) + list(request))]
