"""The real per-connection server loop main.enip_srv_tcp, driven in-process: network.recv is replaced by a
scripted chunk source (b'' = EOF, None = nothing available), conn is a recorder.  No thread, no socket."""
import cpppo
from cpppo import misc
from cpppo.server import network
from cpppo.server.enip import main as enip_main, logix, parser

from . import sim


class Conn(object):
    def __init__(self):
        self.sent = []
        self.closed = 0

    def send(self, data):
        self.sent.append(data)
        return len(data)

    def close(self):
        self.closed += 1


class Clock(object):
    def __init__(self):
        self.t = 1000.0

    def __call__(self):
        self.t += 0.001
        return self.t


def install_stubs():
    sim.install_stubs()
    clock = Clock()
    misc.timer = clock
    enip_main.misc.timer = clock
    # per-connection statistics: apidict builds multiprocessing locks (named semaphores from random names) whose only
    # purpose is cross-thread hand-shaking with the web API; single threaded here -> plain dotdict
    enip_main.apidict = lambda timeout=None, *a, **kw: cpppo.dotdict(*a, **kw)


def serve(chunks, addr=('10.0.0.9', 40001), process=None, count=None, **kw):
    """run the real enip_srv_tcp over the scripted chunks -> (list of reply byte strings, conn.closed, exception or None,
    number of enip_process invocations with a request)"""
    conn = Conn()
    script = list(chunks)

    def recv(c, timeout=None, maxlen=4096):
        if script:
            return script.pop(0)
        return b''                                  # end of script == EOF
    saved = network.recv
    network.recv = recv
    enip_main.network.recv = recv
    calls = []
    inner = process or logix.process

    def counting(a, data, **k):
        if data and 'request' in data and data.request:
            calls.append(1)
        return inner(a, data=data, **k)
    kwds = dict(kw)
    kwds['server'] = cpppo.dotdict(control=cpppo.dotdict(latency=0.1, done=False, disable=False))
    err = None
    try:
        enip_main.enip_srv_tcp(conn, addr, name='enip_vrt', enip_process=counting, **kwds)
    except Exception as exc:
        err = exc
    finally:
        network.recv = saved
        enip_main.network.recv = saved
    connkey = "%s_%d" % (addr[0].replace('.', '_'), addr[1])
    leaked = connkey in enip_main.connections
    return conn.sent, conn.closed, err, len(calls), leaked


class UDPConn(object):
    def __init__(self):
        self.sent = []

    def sendto(self, data, addr):
        self.sent.append((data, addr))
        return len(data)


class _ScriptEnd(Exception):
    pass


def serve_udp(datagrams, process=None, **kw):
    """run the real enip_srv_udp over the scripted datagrams [(bytes, addr), ...] -> (list of (reply bytes, addr), number of
    enip_process invocations with a request).  When the script is exhausted the control flag `done` is set (what main() does on shutdown)."""
    conn = UDPConn()
    script = list(datagrams)
    control = cpppo.dotdict(latency=0.1, done=False, disable=False)

    def recvfrom(c, timeout=None, maxlen=4096):
        if script:
            return script.pop(0)
        control['done'] = True
        raise _ScriptEnd()                          # leaves the parse through the loop's own error handler; the loop then sees `done`
    saved = network.recvfrom
    network.recvfrom = recvfrom
    enip_main.network.recvfrom = recvfrom
    calls = []
    inner = process or logix.process

    def counting(a, data, **k):
        if data and 'request' in data and data.request:
            calls.append(1)
        return inner(a, data=data, **k)
    kwds = dict(kw)
    kwds['server'] = cpppo.dotdict(control=control)
    try:
        enip_main.enip_srv_udp(conn, name='enip_vrt_udp', enip_process=counting, **kwds)
    finally:
        network.recvfrom = saved
        enip_main.network.recvfrom = saved
        for a in set(x[1] for x in datagrams):
            enip_main.connections.pop("%s_%d" % (a[0].replace('.', '_'), a[1]), None)
    return conn.sent, len(calls)
