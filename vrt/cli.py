"""The REAL cpppo client (client.connector incl. its __init__, send/recvfrom/readable/writable, __next__) over a fake
OS boundary: socket.create_connection -> FakeSock, select.select -> readiness of FakeSock.  The peer is the real
simulator (sim) processing each complete request frame synchronously.  Faults: the server->client byte stream can be
cut at an offset (then EOF), the client->server stream can be cut at an offset (peer sees a partial frame, then EOF).
"""
import cpppo
from cpppo import misc
from cpppo.server import network
from cpppo.server.enip import parser, device, logix, client

from . import sim, srv


class Wire(object):
    """server side: request bytes in -> reply bytes out, using the real enip_machine + logix.process"""
    def __init__(self, addr=('127.0.0.1', 40000), ccut=None, **kw):
        self.kw = kw
        self.addr = addr
        self.source = cpppo.chainable()
        self.out = []
        self.received = 0
        self.ccut = ccut               # client->server cut: only the first ccut bytes ever arrive
        self.dead = False
        self.requests = 0
        self.frames = []               # (start, end) of each reply frame in self.out

    def feed(self, data):
        data = list(data)
        if self.ccut is not None:
            room = max(0, self.ccut - self.received)
            if len(data) > room:
                data = data[:room]
                self.dead = True       # connection broke inside/after this send
        self.received += len(data)
        self.source.chain(data)
        while self.source.peek() is not None:
            d = cpppo.dotdict()
            with parser.enip_machine(context='enip', terminal=True) as m:
                complete = True
                for mch, sta in m.run(path='request', source=self.source, data=d):
                    if sta is None and self.source.peek() is None:
                        complete = False
                        break
            if not complete:
                self.dead = True       # partial frame: the server closes the connection without processing it
                return
            self.requests += 1
            if logix.process(self.addr, data=d, **self.kw):
                start = len(self.out)
                self.out.extend(parser.enip_encode(d.response.enip))
                self.frames.append((start, len(self.out)))
            else:
                self.dead = True
                return


class FakeSock(object):
    def __init__(self, wire, cut=None, drop=None):
        self.wire = wire
        self.cut = cut                  # server->client cut: after `cut` bytes, EOF
        self.drop = drop                # index of a reply frame that is LOST ENTIRELY (later frames still arrive)
        self.delivered = 0              # position in wire.out
        self.closed = False

    def fileno(self):
        return 12345

    def setsockopt(self, *a):
        pass

    def shutdown(self, *a):
        pass

    def close(self):
        self.closed = True

    def sendall(self, data):
        if not self.wire.dead:
            self.wire.feed(bytes(data))

    def _limit(self):
        n = len(self.wire.out)
        return n if self.cut is None else min(n, self.cut)

    def available(self):
        self._skip_dropped()
        return self._limit() - self.delivered

    def eof(self):
        return (self.cut is not None and self.delivered >= self.cut) or (self.wire.dead and self.available() <= 0)

    def readable(self):
        return self.available() > 0 or self.eof()

    def _skip_dropped(self):
        if self.drop is not None and self.drop < len(self.wire.frames):
            start, end = self.wire.frames[self.drop]
            if self.delivered == start:
                self.delivered = end

    def recv(self, maxlen=4096):
        self._skip_dropped()
        n = self.available()
        if n > 0:
            stop = self.delivered + n
            if self.drop is not None and self.drop < len(self.wire.frames):
                start, end = self.wire.frames[self.drop]
                if self.delivered < start < stop:
                    stop = start            # deliver up to the lost frame; the next recv skips it
            chunk = bytes(bytearray(self.wire.out[self.delivered:stop]))
            self.delivered = stop
            return chunk
        return b''                      # EOF (only called when select reported readable)


CURRENT = {}
QUEUE = []


class FakeSocketModule(object):
    error = OSError
    timeout = OSError
    AF_INET = SOCK_DGRAM = IPPROTO_TCP = TCP_NODELAY = SOL_SOCKET = SO_KEEPALIVE = SO_BROADCAST = SHUT_WR = 0

    @staticmethod
    def create_connection(addr, timeout=None, source_address=None):
        if QUEUE:                       # prepared connections (proxy reconnects)
            CURRENT['sock'] = QUEUE.pop(0)
        return CURRENT['sock']


class FakeSelectModule(object):
    error = OSError

    @staticmethod
    def select(r, w, e, timeout=None):
        s = CURRENT.get('sock')
        rr = [f for f in r if s is not None and s.readable()]
        return rr, list(w), []


def install_stubs():
    srv.install_stubs()                 # random, misc.timer
    client.socket = FakeSocketModule
    client.select = FakeSelectModule
    network.select = FakeSelectModule
    if device.dialect is None:
        device.dialect = logix.Logix


def connect(cut=None, ccut=None, drop=None, **kw):
    """-> (connector, wire, sock); raises whatever client.connector raises when registration fails"""
    wire = Wire(ccut=ccut, **kw)
    sock = FakeSock(wire, cut=cut, drop=drop)
    CURRENT['sock'] = sock
    c = client.connector(host='fake', port=44818, timeout=1.0)
    return c, wire, sock


def prepare(specs, **kw):
    """queue one fake connection per spec (dict(cut=..., ccut=...)); each new client connection takes the next one"""
    del QUEUE[:]
    made = []
    for sp in specs:
        wire = Wire(ccut=sp.get('ccut'), **kw)
        sock = FakeSock(wire, cut=sp.get('cut'), drop=sp.get('drop'))
        QUEUE.append(sock)
        made.append((wire, sock))
    return made
