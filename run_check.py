#!/usr/bin/env python3
"""run_check.py <property id> [--tier quick|thorough] [--only NAME[,NAME]] [--jobs N]

Decides one property by running CrossHair (z3) on every obligation of /verif/harness/<id>.py against
/repo's current working tree.  Exit: 0 held within bounds / 1 VIOLATION (replayed on the plain code) /
2 inconclusive / 3 harness error.  Rewrites /verif/evidence/<id>.json on every run.
"""
import argparse
import ast
import concurrent.futures
import json
import os
import re
import subprocess
import sys
import time

HERE = os.path.dirname(os.path.abspath(__file__))
VENV_PY = os.path.join(HERE, '.venv', 'bin', 'python')
PLAIN_PY = '/venv/bin/python'
EVID = os.environ.get('VRT_EVID_DIR') or os.path.join(HERE, 'evidence')     # (override: only for evaluating seeded changes in scratch worktrees)


def ensure_setup():
    if not os.path.exists(VENV_PY) or subprocess.call(
            [VENV_PY, '-c', 'import crosshair, z3, cpppo'], stdout=subprocess.DEVNULL, stderr=subprocess.DEVNULL):
        r = subprocess.call(['sh', os.path.join(HERE, 'setup.sh')], stdout=sys.stderr)
        if r:
            print("HARNESS-ERROR setup.sh failed (%d)" % r)
            sys.exit(3)


def env_for(symbolic=True):
    env = dict(os.environ)
    env['PYTHONPATH'] = HERE
    if os.environ.get('VRT_CPPPO_ENV'):
        # evaluation of a seeded change in a scratch worktree: a directory holding `cpppo -> <worktree>`; never set by MANIFEST commands
        env['PYTHONPATH'] = HERE + os.pathsep + os.environ['VRT_CPPPO_ENV']
    env['PYTHONHASHSEED'] = '0'
    env.pop('VRT_PLAIN', None)
    if not symbolic:
        env['VRT_PLAIN'] = '1'
    return env


def list_obligations(prop):
    code = ("import json,sys,importlib; m=importlib.import_module('harness.%s'); "
            "from vrt.ob import REGISTRY; from vrt import glue; "
            "sys.stdout.write('\\nVRT-LIST '+json.dumps(dict(obs=REGISTRY.get(m.__name__,{}), "
            "glue=dict(delog_functions=glue.STATS['delog_functions'], delog_removed=glue.STATS['delog_removed'], "
            "delog_skipped=glue.STATS['delog_skipped'])))+'\\n')" % prop)
    p = subprocess.run([VENV_PY, '-c', code], env=env_for(), cwd=HERE, capture_output=True, text=True)
    for line in p.stdout.splitlines():
        if line.startswith('VRT-LIST '):
            return json.loads(line[9:])
    print("HARNESS-ERROR cannot import harness.%s:\n%s\n%s" % (prop, p.stdout[-3000:], p.stderr[-6000:]))
    sys.exit(3)


def run_worker(prop, fname, cond_to, path_to):
    t0 = time.time()
    cmd = [VENV_PY, '-m', 'vrt.worker', 'harness.%s' % prop, fname, str(cond_to), str(path_to)]
    try:
        p = subprocess.run(cmd, env=env_for(), cwd=HERE, capture_output=True, text=True,
                           timeout=cond_to * 4 + 600)
        out, err = p.stdout, p.stderr
    except subprocess.TimeoutExpired as exc:
        return dict(function=fname, verdict='unknown', messages=[dict(state='wall_timeout', message=str(exc))],
                    wall_s=round(time.time() - t0, 1), cpu_s=0)
    for line in reversed(out.splitlines()):
        if line.startswith('VRT-RESULT '):
            return json.loads(line[11:])
    return dict(function=fname, verdict='error', wall_s=round(time.time() - t0, 1), cpu_s=0,
                messages=[dict(state='crash', message='worker died: rc=%s' % p.returncode,
                               traceback=(out[-1500:] + '\n' + err[-3000:]))])


CALL_RE = re.compile(r'when calling (.*?)(?: \(which returns .*\))?$', re.S)


def parse_counterexample(message, fname):
    """-> list of argument source texts (python literals), or None"""
    m = CALL_RE.search(message)
    if not m:
        return None
    text = m.group(1).strip()
    try:
        node = ast.parse(text, mode='eval').body
    except SyntaxError:
        return None
    if not isinstance(node, ast.Call):
        return None
    args = [ast.unparse(a) for a in node.args]
    if node.keywords:
        return None
    return args


def write_replay(prop, fname, args, note):
    os.makedirs(os.path.join(EVID, 'replay'), exist_ok=True)
    path = os.path.join(EVID, 'replay', '%s-%s.py' % (prop, fname))
    with open(path, 'w') as f:
        f.write("#!/venv/bin/python\n"
                "# Replay of a solver-found counterexample against the PLAIN /repo code (no CrossHair, no glue).\n"
                "# %s\n"
                "# exit 1 = reproduced, 0 = not reproduced.   Run:  /venv/bin/python %s\n"
                "import json, sys\n"
                "sys.path.insert(0, %r)\n"
                "from vrt import replay\n"
                "sys.exit(replay.run(%r, %r, %r))\n" % (note.replace('\n', ' ')[:400], path, HERE, 'harness.%s' % prop, fname, args))
    return path


def replay(prop, fname, args, witness=False):
    p = subprocess.run([PLAIN_PY, '-m', 'vrt.replay', 'harness.%s' % prop, fname, json.dumps(args)] + (['--witness'] if witness else []),
                       env=env_for(symbolic=False), cwd=HERE, capture_output=True, text=True, timeout=900)
    return p.returncode, (p.stdout[-3000:] + p.stderr[-1500:])


def load_known(prop):
    try:
        with open(os.path.join(HERE, 'known_findings.json')) as f:
            kf = json.load(f)
    except OSError:
        return []
    return [e for e in kf.get('findings', []) if e.get('property') == prop]


def main():
    ap = argparse.ArgumentParser()
    ap.add_argument('prop')
    ap.add_argument('--tier', default=os.environ.get('VERIF_TIER', 'quick'), choices=['quick', 'thorough'])
    ap.add_argument('--only', default='')
    ap.add_argument('--jobs', type=int, default=int(os.environ.get('VRT_JOBS', '0')) or (os.cpu_count() or 4))
    ap.add_argument('--scale', type=float, default=float(os.environ.get('VRT_SCALE', '1')),
                    help='multiply every CPU budget')
    a = ap.parse_args()
    prop = a.prop
    seed = int(os.environ.get('VERIF_SEED', '0') or 0)
    t0 = time.time()
    ensure_setup()
    os.makedirs(EVID, exist_ok=True)

    # -- glue self-test (differential: plain vs. shimmed code on the repo's own fixtures) ------------
    st = subprocess.run([VENV_PY, '-m', 'vrt.selftest', prop], env=env_for(), cwd=HERE, capture_output=True, text=True)
    if st.returncode:
        print("HARNESS-ERROR glue self-test failed:\n" + st.stdout[-3000:] + st.stderr[-3000:])
        sys.exit(3)
    selftest = st.stdout.strip().splitlines()[-1] if st.stdout.strip() else ''

    listing = list_obligations(prop)
    obs = listing['obs']
    only = set(x for x in a.only.split(',') if x)
    selected = [m for n, m in obs.items()
                if (not only or n in only) and (a.tier == 'thorough' or m['tier'] == 'quick')]
    if not selected:
        print("HARNESS-ERROR no obligations selected for %s" % prop)
        sys.exit(3)

    # -- known findings: replay each listed witness on the plain code ------------------------------
    known = load_known(prop)
    known_lines = []
    for e in known:
        if e.get('status') != 'known':
            continue
        w = e['witness']
        rc, out = replay(prop, w['obligation'], w['args'], witness=True)
        if rc == 1:
            line = "KNOWN-FINDING: property=%s %s [witness %s(%s)]" % (prop, e['what'], w['obligation'], ", ".join(w['args']))
            print(line)
            known_lines.append(line)
        else:
            print("NOTE: listed finding %s no longer reproduces (rc=%d)" % (e.get('id'), rc))

    # -- run obligations and twins -----------------------------------------------------------------
    jobs = []
    for m in selected:
        jobs.append((m['name'], m['timeout'] * a.scale, m['path_timeout'] * a.scale, m, False))
        if m.get('twin'):
            jobs.append((m['twin'], m.get('twin_timeout', 120) * a.scale, m['path_timeout'] * a.scale, m, True))
    # longest first
    jobs.sort(key=lambda j: (-j[1], j[0]))
    results = {}
    with concurrent.futures.ThreadPoolExecutor(max_workers=a.jobs) as ex:
        futs = {ex.submit(run_worker, prop, j[0], j[1], j[2]): j for j in jobs}
        for fut in concurrent.futures.as_completed(futs):
            j = futs[fut]
            r = fut.result()
            results[j[0]] = r
            sys.stderr.write("  %-44s %-10s cpu=%ss paths=%s\n" % (
                j[0], r['verdict'], r.get('cpu_s'), r.get('crosshair_stats', {}).get('num_paths')))

    violations, inconclusive, errors = [], [], []
    records = []
    for m in selected:
        name = m['name']
        r = results[name]
        rec = dict(obligation=name, verdict=r['verdict'], drives=m['drives'], symbolic=m['symbolic'],
                   preconditions=m['pre'], bounds=m['bounds'], outside=m['outside'], stubs=m['stubs'],
                   paths=r.get('crosshair_stats', {}).get('num_paths', 0), cpu_s=r.get('cpu_s'),
                   solver_checks=r.get('glue', {}).get('solver_checks', 0),
                   solver_seconds=r.get('glue', {}).get('solver_seconds', 0),
                   budget_s=m['timeout'] * a.scale, messages=[x.get('message') for x in r.get('messages', [])][:3])
        if m.get('twin'):
            tr = results[m['twin']]
            rec['reachability_twin'] = tr['verdict']
            if tr['verdict'] != 'refuted':
                if tr['verdict'] in ('unknown',):
                    inconclusive.append((name, 'reachability twin not refuted within budget (%s)' % tr['verdict']))
                else:
                    errors.append((name, 'vacuous: reachability twin verdict %s: %s' % (
                        tr['verdict'], [x.get('message') for x in tr.get('messages', [])][:2])))
        if r['verdict'] == 'confirmed':
            pass
        elif r['verdict'] == 'refuted':
            msg = next((x for x in r['messages'] if x['state'] in ('POST_FAIL', 'POST_ERR', 'EXEC_ERR')), None)
            args = parse_counterexample(msg['message'], name) if msg else None
            if args is None:
                errors.append((name, 'cannot parse counterexample: %r' % (msg and msg['message'])))
            else:
                path = write_replay(prop, name, args, msg['message'])
                rc, out = replay(prop, name, args)
                rec['counterexample'] = dict(args=args, replay=path, replay_rc=rc, message=msg['message'][:500])
                if rc == 1:
                    violations.append((name, path, msg['message']))
                elif rc == 0:
                    errors.append((name, 'counterexample does NOT reproduce on the plain code (glue/encoding '
                                         'problem, not a finding): %s' % msg['message'][:300]))
                else:
                    errors.append((name, 'replay failed rc=%d: %s' % (rc, out[-500:])))
        elif r['verdict'] in ('unknown', 'pre_unsat'):
            inconclusive.append((name, '%s: %s' % (r['verdict'], [x.get('message') for x in r.get('messages', [])][:2])))
        else:
            errors.append((name, 'worker error: %s' % json.dumps(r.get('messages', []))[:1500]))
        records.append(rec)

    confirmed = sum(1 for r in records if r['verdict'] == 'confirmed')
    total_paths = sum(r['paths'] or 0 for r in records)
    ev = dict(
        property_id=prop, tier=a.tier, seed=seed, level='other',
        coverage=dict(
            explanation=("Bounded symbolic execution of the real /repo code by CrossHair 0.0.110 with z3: every "
                         "obligation is a harness whose listed arguments are solver variables; 'confirmed' means "
                         "CrossHair exhausted every execution path inside the stated preconditions/bounds with the "
                         "postcondition true (z3 decides branch feasibility per path); a counterexample is replayed on "
                         "the plain code before it is reported; each obligation has a reachability twin that must be "
                         "refuted (vacuity guard). Nothing outside the bounds is claimed."),
            obligations=len(records), discharged=confirmed,
            evaluations=max(1, total_paths),
            distinct_nontrivial=total_paths,
            rule=("evaluations = execution paths (distinct branch-decision classes of the symbolic inputs) explored by "
                  "CrossHair over all obligations of this run, twins excluded; every path is distinct by "
                  "construction and non-trivial in that it passed the preconditions"),
            exhaustive=(confirmed == len(records)),
            solver='z3 ' + subprocess.run([VENV_PY, '-c', 'import z3;print(z3.get_version_string())'],
                                          capture_output=True, text=True).stdout.strip(),
            solver_queries=sum(r['solver_checks'] or 0 for r in records),
            solver_seconds=round(sum(r['solver_seconds'] or 0 for r in records), 2),
            cpu_seconds=round(sum(r['cpu_s'] or 0 for r in records), 1),
            functions_encoded=sorted(set(d for r in records for d in r['drives'])),
            glue=listing['glue'], selftest=selftest,
            samples=records,
            known_findings=known_lines,
            inconclusive=[dict(obligation=n, why=w) for n, w in inconclusive],
            harness_errors=[dict(obligation=n, why=w) for n, w in errors],
            trusted_base=["CrossHair 0.0.110 semantics of Python 3.12", "z3 5.1.0", "vrt/glue.py (delog, StructShim, "
                          "const hash at whitelisted sites, state.__getitem__ case split, SymbolicArray.tobytes)",
                          "stubs listed per obligation"],
        ),
        assumptions=["bounds stated per obligation; anything larger is outside the claim",
                     "log statements removed from the analysed functions (recompiled from current source)",
                     "floats are concrete", "single thread; no real sockets"],
        wall_s=round(time.time() - t0, 1), violations=len(violations))
    with open(os.path.join(EVID, '%s.json' % prop), 'w') as f:
        json.dump(ev, f, indent=1, sort_keys=True)

    for n, w in errors:
        print("HARNESS-ERROR property=%s obligation=%s %s" % (prop, n, w))
    for n, w in inconclusive:
        print("INCONCLUSIVE property=%s obligation=%s %s" % (prop, n, w))
    for n, path, msg in violations:
        print("VIOLATION property=%s replay=%s obligation=%s %s" % (prop, path, n, msg[:300]))
    print("%s tier=%s obligations=%d confirmed=%d violations=%d inconclusive=%d errors=%d paths=%d wall=%.0fs" % (
        prop, a.tier, len(records), confirmed, len(violations), len(inconclusive), len(errors), total_paths,
        time.time() - t0))
    if violations:
        sys.exit(1)
    if errors:
        sys.exit(3)
    if inconclusive:
        sys.exit(2)
    sys.exit(0)


if __name__ == '__main__':
    main()
