"""C10 -- a length limit bounds what a nested parser may consume; reported consumption == symbols actually taken."""
from vrt import glue, sim, ref_cip as ref
from vrt.ob import define, concretize
import cpppo
from cpppo.server.enip import parser, device, logix

glue.activate(cpppo.automata, cpppo.dotdict, parser, device, logix)

DRIVES = ['cpppo.automata.state.run (limit -> ending, may only shrink; post-run sent <= ending)', 'cpppo.automata.state.transition (limited => only no-input transitions)',
          'cpppo.automata.dfa_base.delegate (repeat)', 'cpppo.automata.peeking.push/__next__', 'cpppo.automata.chaining.__next__']


def run_limited(machine, blocks, lim, rep=None):
    """run `machine` (built with limit='..lim') over the chained blocks -> (terminal, reported sent, remaining symbols, failed)"""
    data = cpppo.dotdict()
    data.lim = lim
    if rep is not None:
        data.rep = rep
    blocks = [list(b) for b in blocks]
    src = cpppo.chainable(blocks.pop(0))
    failed = False
    term = False
    with machine as m:
        try:
            for mch, sta in m.run(source=src, data=data):
                if sta is None and src.peek() is None and blocks:
                    src.chain(blocks.pop(0))
        except Exception:
            failed = True
        term = m.terminal and not failed
    while blocks:
        src.chain(blocks.pop(0))
    sent = src.sent
    remaining = [x for x in src]
    return term, sent, remaining, failed, data


def check_limit(name, bs, lim, cut):
    m, minimum = MACHINES[name]
    cut = concretize(cut, len(bs) + 1)
    term, sent, remaining, failed, data = run_limited(m, [bs[:cut], bs[cut:]], lim)
    ok = sent == len(bs) - len(remaining) and remaining == bs[len(bs) - len(remaining):]      # reported == actually taken, in order
    ok = ok and sent <= len(bs)
    if term:
        ok = ok and sent <= lim                                                                # never completes beyond the limit
    return ok


MACHINES = {}


def add(name, machine, sample, tier='quick', nsym=4, timeout=900):
    """sample: a valid encoding; the first nsym bytes become symbolic, the limit is symbolic 0..len+1, the 2-block split is symbolic"""
    MACHINES[name] = (machine, len(sample))
    bs = ['b%d' % i for i in range(min(nsym, len(sample)))]
    rest = list(sample[len(bs):])
    define(globals(), 'C10', 'limit_%s' % name, bs + ['lim', 'cut'],
           "return check_limit(%r, [%s] + %r, lim, cut)" % (name, ", ".join(bs), rest),
           [" and ".join('0 <= %s <= 255' % b for b in bs), '0 <= lim <= %d and 0 <= cut' % (len(sample) + 1)],
           tier=tier, timeout=timeout, path_timeout=120, drives=DRIVES + ['cpppo.server.enip.parser.%s' % name.split('_')[0]],
           symbolic=['b*: the first %d input bytes (0..255 each)' % len(bs), 'lim: the symbol limit 0..%d (incl. 0 and values cutting an element in half)' % (len(sample) + 1),
                     'cut: where the input is split into two chained blocks'],
           bounds='%s given limit=<data path> on a %d-byte input (first %d bytes arbitrary, rest %r): terminal => consumed <= limit; reported sent == '
                  'symbols actually removed from the input (remaining symbols are exactly the unconsumed suffix), across chained blocks and pushed-back '
                  'symbols' % (name, len(sample), len(bs), rest), outside='longer inputs')


L = '..lim'
add('USINT', parser.USINT(context='m', limit=L, terminal=True), [7, 8])
add('UINT', parser.UINT(context='m', limit=L, terminal=True), [1, 2, 3])
add('UDINT', parser.UDINT(context='m', limit=L, terminal=True), [1, 2, 3, 4, 5])
add('SSTRING', parser.SSTRING(context='m', limit=L, terminal=True), [3, 65, 66, 67, 68])
add('STRING', parser.STRING(context='m', limit=L, terminal=True), [3, 0, 65, 66, 67, 0, 9])
add('EPATH', parser.EPATH(context='m', limit=L, terminal=True), [2, 0x20, 6, 0x24, 1, 0x30], nsym=1)
add('EPATH_2sym', parser.EPATH(context='m', limit=L, terminal=True), [2, 0x20, 6, 0x24, 1, 0x30], nsym=2, tier='thorough')
add('EPATH_padded', parser.EPATH_padded(context='m', limit=L, terminal=True), [1, 0, 0x01, 0x05, 0x99], nsym=2)
add('EPATH_single', parser.EPATH_single(context='m', limit=L, terminal=True), [0x91, 3, 65, 66, 67, 0, 0x20], nsym=2, tier='thorough')
add('status', parser.status(context='m', limit=L, terminal=True), [0xff, 1, 5, 0x21, 0x77])
add('typed_data_INT', parser.typed_data(context='m', tag_type=parser.INT.tag_type, limit=L, terminal=True), [1, 0, 2, 0, 3])
add('typed_data_SSTRING', parser.typed_data(context='m', tag_type=parser.SSTRING.tag_type, limit=L, terminal=True), [1, 65, 2, 66, 67])
add('typed_data_UDINT', parser.typed_data(context='m', tag_type=parser.UDINT.tag_type, limit=L, terminal=True), [1, 0, 0, 0, 2, 0, 0, 0, 9], tier='thorough')
add('CPF', parser.CPF(context='m', limit=L, terminal=True), [2, 0, 0, 0, 0, 0, 0xb2, 0, 2, 0, 0x0e, 0x00, 0x77])
add('CPF_unrecognized', parser.CPF(context='m', limit=L, terminal=True), [1, 0, 0x34, 0x12, 3, 0, 1, 2, 3, 0x77], tier='thorough')
add('unconnected_send', parser.unconnected_send(context='m', limit=L, terminal=True),
    ref.unconnected_send([0x4c, 2, 0x20, 2], [{'port': 1, 'link': 0}]) + [0x77], nsym=1)
add('communications_service', parser.communications_service(context='m', limit=L, terminal=True), [1, 0, 0x20, 0, 65, 66, 0, 0x77], tier='thorough')
add('connection_ID', parser.connection_ID(context='m', limit=L, terminal=True), [1, 2, 3, 4, 5])
add('connection_data', parser.connection_data(context='m', limit=L, terminal=True), [1, 0, 0x4c, 2, 0x20], tier='thorough')
add('register', parser.register(context='m', limit=L, terminal=True), [1, 0, 0, 0, 9])
add('send_data', parser.send_data(context='m', limit=L, terminal=True), [0, 0, 0, 0, 5, 0, 1, 0, 0, 0, 0, 0, 0x77], nsym=3, tier='thorough')
add('identity_object', parser.identity_object(context='m', limit=L, terminal=True),
    [1, 0, 0, 2, 0xaf, 0x12, 10, 1, 2, 3] + [0] * 8 + [1, 0, 2, 0, 3, 0, 4, 0, 5, 0, 6, 0, 0, 0, 2, 65, 66, 3, 0x77], nsym=2, tier='thorough')


# ---- service request / reply machines with a limit: the registered Object.parser members (through a limited wrapper dfa) -----------------
TAGS = sim.setup({'A': (parser.INT, 4)})


def service_machine(cls):
    inner = cpppo.dfa('svc', context='m', initial=cls.parser.initial, limit=L, terminal=True)
    return inner


add('Logix_read_frag_request', service_machine(logix.Logix), ref.read_frag([{'symbolic': 'A'}], 1, 0) + [0x77], nsym=1, tier='thorough', timeout=3600)
add('Logix_read_tag_reply', service_machine(logix.Logix), [0xcc, 0, 0, 0, 0xc3, 0, 5, 0, 6, 0, 0x77], nsym=1, tier='thorough')
add('Logix_write_reply', service_machine(logix.Logix), [0xcd, 0, 0, 0, 0x77], nsym=1)
add('Logix_write_tag_request', service_machine(logix.Logix), ref.write_tag([{'symbolic': 'A'}], 0xc3, [5, 6]) + [0x77], nsym=1, tier='thorough', timeout=3600)


# ---- data-path limit shorter / longer than the content: SSTRING length field vs. enclosing limit ------------------------------------------
def check_length_field(length, b0, b1, b2, lim):
    """SSTRING: the .length field limits the string sub-parser; the enclosing limit bounds everything"""
    bs = [length, b0, b1, b2, 0x77]
    term, sent, remaining, failed, data = run_limited(MACHINES['SSTRING'][0], [bs], lim)
    ok = sent == len(bs) - len(remaining) and remaining == bs[sent:]
    if term:
        # stops at or before BOTH boundaries (its own length field and the enclosing limit); what it stored is exactly what it consumed
        ok = ok and sent <= 1 + length and sent <= lim and [ord(c) for c in data.m.string] == bs[1:sent]
        ok = ok and (sent == 1 + length or sent == lim or sent == len(bs))      # stopped by its length field, the enclosing limit, or the end of input
    else:
        ok = ok and (length > 3 or 1 + length > lim)            # fails only when the content or the limit is too short
    return ok


define(globals(), 'C10', 'length_field_vs_limit', ['length', 'b0', 'b1', 'b2', 'lim'], "return check_length_field(length, b0, b1, b2, lim)",
       ['0 <= length <= 5 and 0 <= b0 <= 255 and 0 <= b1 <= 255 and 0 <= b2 <= 255 and 0 <= lim <= 6'], timeout=900, path_timeout=120, drives=DRIVES,
       bounds="SSTRING whose parsed .length field (0..5) limits its string sub-parser ('..length'), inside an enclosing limit 0..6, on 3 content bytes + 1 "
              "following byte: a successful parse stops at or before both the length field and the enclosing limit and stores exactly the bytes it consumed", outside='')

# ---- repeat: the sub-grammar runs exactly R times ------------------------------------------------------------------------------------------
REP1 = cpppo.dfa('rep1', context='r', initial=cpppo.state_input('byte', terminal=True, alphabet=cpppo.type_bytes_iter, typecode=cpppo.type_bytes_array_symbol),
                 repeat='..rep', terminal=True)
_b1 = cpppo.state_input('b1', alphabet=cpppo.type_bytes_iter, typecode=cpppo.type_bytes_array_symbol)
_b1[True] = cpppo.state_input('b2', terminal=True, alphabet=cpppo.type_bytes_iter, typecode=cpppo.type_bytes_array_symbol)
REP2 = cpppo.dfa('rep2', context='r', initial=_b1, repeat='..rep', terminal=True)


def check_repeat(two, rep, bs):
    m = REP2 if two else REP1
    width = 2 if two else 1
    data = cpppo.dotdict()
    data.rep = rep
    src = cpppo.peekable(bs)
    failed = False
    with m as mm:
        try:
            for _ in mm.run(source=src, data=data):
                pass
        except Exception:
            failed = True
        term = mm.terminal and not failed
    sent = src.sent
    remaining = [x for x in src]
    ok = sent == len(bs) - len(remaining) and remaining == bs[sent:]
    if rep * width <= len(bs):
        # exactly R cycles, no more (with R == 0 nothing is consumed; terminal-ness is then that of the idle sub-grammar)
        return ok and sent == rep * width and (term or rep == 0) and [x for x in data.get('r.input', [])] == bs[:sent]
    return ok and not term


define(globals(), 'C10', 'repeat_exact', [('two', 'bool'), 'rep', 'b0', 'b1', 'b2', 'b3', 'b4'], "return check_repeat(two, rep, [b0, b1, b2, b3, b4])",
       ['0 <= rep <= 3', " and ".join('0 <= b%d <= 255' % i for i in range(5))], timeout=900, path_timeout=120, drives=DRIVES,
       bounds="dfa(repeat=<data path>) with repeat count 0..3 over a 1-byte and a 2-byte sub-grammar on 5 arbitrary bytes: the sub-grammar runs exactly "
              "that many times (terminal only after the last cycle), or fails when the input is too short", outside='repeat counts > 3')
