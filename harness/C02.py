"""C02 -- message framing ignores stream segmentation; an incomplete frame has no effect."""
from vrt import glue, sim, srv, ref_cip as ref
from vrt.ob import define, obligation, concretize
import cpppo
from cpppo.server.enip import parser, device, logix, main as enip_main

glue.activate(cpppo.automata, cpppo.dotdict, parser, device, logix, enip_main)
srv.install_stubs()

AUTOMATA = ['cpppo.automata.peeking/chaining (push-back, chained input, sent)', 'cpppo.automata.state.run', 'cpppo.automata.state.transition',
            'cpppo.automata.dfa_base.delegate', 'cpppo.server.enip.parser.enip_header', 'cpppo.server.enip.parser.enip_machine']
M = parser.enip_machine(context='enip', terminal=True)


def frame(command, length, sess, payload):
    length = concretize(length, len(payload) + 1)
    return ref.encap(command, sess, 0, [1, 2, 3, 4, 5, 6, 7, 8], 0, payload[:length])


def feed(stream, cuts):
    """parse ONE frame from `stream` delivered as the chunks delimited by `cuts` (sorted positions); returns
    (data, sent, next symbol, terminal)"""
    chunks = []
    at = 0
    for c in cuts:
        chunks.append(stream[at:c])
        at = c
    chunks.append(stream[at:])
    # a receive never delivers an EMPTY chunk (b'' is EOF, and the server loops blocks until input arrives): equal cut positions just mean fewer
    # chunks.  (Re-entering the machine twice without new input trips its own "no progress" assertion -- by design, not a framing matter.)
    chunks = [c for c in chunks if len(c)] or [[]]
    src = cpppo.chainable(chunks.pop(0))
    data = cpppo.dotdict()
    with M as m:
        for mch, sta in m.run(source=src, data=data):
            if sta is None and src.peek() is None:
                if not chunks:
                    break
                src.chain(chunks.pop(0))
        term = m.terminal
    while chunks:
        src.chain(chunks.pop(0))
    return data, src.sent, src.peek(), term


def same(data, command, length, sess, payload):
    length = concretize(length, len(payload) + 1)
    e = data.enip
    return (e.command == command and e.length == length and e.session_handle == sess and e.status == 0 and e.options == 0
            and [x for x in e.sender_context.input] == [1, 2, 3, 4, 5, 6, 7, 8] and [x for x in e.get('input', [])] == payload[:length])


def do_two_way(command, length, sess, p, cut):
    stream = frame(command, length, sess, p) + [0xAA, 0xBB, 0xCC]      # the beginning of the next frame follows
    length = concretize(length, len(p) + 1)
    total = 24 + length
    cut = concretize(cut, len(stream) + 1)
    d, sent, nxt, term = feed(stream, [cut])
    return term and sent == total and nxt == 0xAA and same(d, command, length, sess, p)


def do_three_way(command, length, sess, p, c1, c2):
    stream = frame(command, length, sess, p) + [0xAA, 0xBB]
    length = concretize(length, len(p) + 1)
    total = 24 + length
    c1 = concretize(c1, len(stream) + 1)
    c2 = c1 + concretize(c2, len(stream) + 1 - c1)
    d, sent, nxt, term = feed(stream, [c1, c2])
    return term and sent == total and nxt == 0xAA and same(d, command, length, sess, p)


def do_bytewise(command, length, sess, p):
    length = concretize(length, len(p) + 1)
    stream = frame(command, length, sess, p) + [0xAA]
    d, sent, nxt, term = feed(stream, list(range(1, len(stream))))
    d1, sent1, nxt1, term1 = feed(stream, [])
    return (term and sent == 24 + length and nxt == 0xAA and same(d, command, length, sess, p)
            and term1 and sent1 == sent and nxt1 == 0xAA and same(d1, command, length, sess, p))


for n, tier in ((3, 'quick'), (5, 'thorough')):
    ps = ['p%d' % i for i in range(n)]
    pre = ['0 <= command <= 0xFFFF and 0 <= length <= %d and 0 <= sess <= 0xFFFFFFFF' % n, " and ".join('0 <= %s <= 255' % p for p in ps)]
    define(globals(), 'C02', 'frame_two_chunks_upto%d' % n, ['command', 'length', 'sess'] + ps + ['cut'],
           "return do_two_way(command, length, sess, [%s], cut)" % ", ".join(ps), pre + ['0 <= cut'],
           tier=tier, timeout=1800, path_timeout=120, drives=AUTOMATA,
           symbolic=['command, session', 'length 0..%d (declared = actual)' % n, 'payload bytes', 'cut: EVERY two-way split position of frame + 3 following bytes'],
           bounds='one frame with payload 0..%d arbitrary bytes followed by 3 bytes of the next frame, delivered in two chunks cut at every '
                  'position 0..len (incl. empty first/second chunk)' % n, outside='payloads > %d bytes' % n)
    define(globals(), 'C02', 'frame_bytewise_upto%d' % n, ['command', 'length', 'sess'] + ps,
           "return do_bytewise(command, length, sess, [%s])" % ", ".join(ps), pre,
           tier=tier, timeout=1800, path_timeout=120, drives=AUTOMATA,
           bounds='the same frame delivered one byte per chunk, and all at once (coalesced with the next frame\'s first byte): identical result',
           outside='payloads > %d bytes' % n)
ps = ['p0', 'p1']
define(globals(), 'C02', 'frame_three_chunks', ['command', 'length', 'sess'] + ps + ['c1', 'c2'],
       "return do_three_way(command, length, sess, [p0, p1], c1, c2)",
       ['0 <= command <= 0xFFFF and 0 <= length <= 2 and 0 <= sess <= 0xFFFFFFFF', '0 <= p0 <= 255 and 0 <= p1 <= 255', '0 <= c1 and 0 <= c2'],
       tier='thorough', timeout=3000, path_timeout=120, drives=AUTOMATA,
       bounds='frame with payload 0..2 bytes + 2 following bytes delivered in three chunks, both cut positions arbitrary', outside='')


def do_two_frames(l1, l2, sess, p, cut):
    l1 = concretize(l1, 3)
    l2 = concretize(l2, 3)
    """two coalesced frames, one cut anywhere: two parses from the same source give frame 1 then frame 2"""
    f1 = frame(0x6f, l1, sess, p)
    f2 = frame(0x70, l2, sess + 1, [9, 8, 7])
    stream = f1 + f2
    cut = concretize(cut, len(stream) + 1)
    chunks = [stream[:cut], stream[cut:]]
    src = cpppo.chainable(chunks.pop(0))
    out = []
    for k in range(2):
        data = cpppo.dotdict()
        with M as m:
            for mch, sta in m.run(source=src, data=data):
                if sta is None and src.peek() is None:
                    if not chunks:
                        break
                    src.chain(chunks.pop(0))
            out.append((data, src.sent, m.terminal))
    (d1, s1, t1), (d2, s2, t2) = out
    return (t1 and t2 and s1 == 24 + l1 and s2 == 48 + l1 + l2 and same(d1, 0x6f, l1, sess, p)
            and d2.enip.command == 0x70 and d2.enip.session_handle == sess + 1 and [x for x in d2.enip.get('input', [])] == [9, 8, 7][:l2]
            and src.peek() is None)


for _l1 in (0, 1, 2):
  define(globals(), 'C02', 'two_frames_one_cut_len%d' % _l1, ['l2', 'sess', 'p0', 'p1', 'cut'], "return do_two_frames(%d, l2, sess, [p0, p1], cut)" % _l1,
       ['0 <= l2 <= 2 and 0 <= sess < 0xFFFFFFFF and 0 <= p0 <= 255 and 0 <= p1 <= 255 and 0 <= cut'],
       timeout=1800, path_timeout=120, drives=AUTOMATA,
       bounds='two frames (payloads 0..2 bytes each) coalesced and cut at every position: consecutive parses from one source return frame 1 '
              '(exactly 24+len bytes) then frame 2, nothing lost or duplicated', outside='')


# ---- truncation: a request is acted upon iff its final byte has been delivered ---------------------------------------------------------
TAGS = sim.setup({'A': (parser.INT, 4)})
SRV_DRIVES = ['cpppo.server.enip.main.enip_srv_tcp', 'cpppo.server.enip.main.stats_for', 'cpppo.server.enip.logix.process',
              'cpppo.server.enip.ucmm.UCMM.request', 'cpppo.server.enip.device.Connection_Manager.request', 'cpppo.server.enip.logix.Logix.request'] + AUTOMATA


def request_stream(v, c):
    w = cpppo.dotdict()
    w.path = sim.tagpath('A', 1)
    w.write_tag = {'type': 0xc3, 'data': [v]}
    r = cpppo.dotdict()
    r.path = sim.tagpath('A', 0)
    r.read_tag = {'elements': 4}
    f0 = [x for x in sim.register_frame()]
    f1 = [x for x in sim.request_frame(1001, [c, 65, 65, 65, 65, 65, 65, 65], sim.send_rr(w, route_path=[{'port': 1, 'link': 0}]))]
    f2 = [x for x in sim.request_frame(1001, [c, 66, 66, 66, 66, 66, 66, 66], sim.send_rr(r, route_path=[{'port': 1, 'link': 0}]))]
    return f0, f1, f2


def do_truncate(v, c, t, cut):
    """deliver the first t bytes of [Register, Write A[1]=v, Read A[0-3]] (in two chunks split at cut), then EOF"""
    sim.RANDOM.n = 1000
    sim.attribute('A').value[:] = [0, 0, 0, 0]
    f0, f1, f2 = request_stream(v, c)
    stream = f0 + f1 + f2
    e0, e1, e2 = len(f0), len(f0) + len(f1), len(stream)
    t = concretize(t, e2 + 1)
    part = stream[:t]
    cut = concretize(cut, t + 1)
    chunks = [bytes(bytearray(part[:cut])), bytes(bytearray(part[cut:]))] if t else []
    chunks = [ch for ch in chunks if ch]
    sent, closed, err, calls, leaked = srv.serve(chunks, tags=TAGS)
    complete = (1 if t >= e0 else 0) + (1 if t >= e1 else 0) + (1 if t >= e2 else 0)
    ok = len(sent) == complete and calls == complete          # one reply per COMPLETE frame, processor never sees a partial one
    ok = ok and closed == 1 and not leaked                      # connection closed, stats entry removed
    ok = ok and list(sim.attribute('A').value) == ([0, v, 0, 0] if t >= e1 else [0, 0, 0, 0])   # tag changed iff the write frame is complete
    ok = ok and (err is None) == (t in (0, e0, e1, e2))         # a partial frame ends the handler by exception
    if complete == 3:
        rp = ref.un_encap([x for x in sent[2]])
        items, _ = ref.un_cpf(rp['payload'][6:])
        r = ref.un_reply(items[1][1])
        ok = ok and r['service'] == 0xcc and r['status'] == 0 and r['data'] == [0xc3, 0] + ref.le(0, 2) + ref.le(v, 2) + ref.le(0, 2) + ref.le(0, 2)
        ok = ok and rp['context'] == [c, 66, 66, 66, 66, 66, 66, 66]
    return ok


for _lo, _hi in ((0, 20), (20, 40), (40, 60), (60, 80), (80, 100), (100, 120), (120, 140), (140, 161)):
  define(globals(), 'C02', 'truncation_offsets_%03d_%03d' % (_lo, _hi), ['v', 'c', 't'], "return do_truncate(v, c, %d + t, 0)" % _lo,
       ['-32768 <= v <= 32767 and 0 <= c <= 255 and 0 <= t < %d' % (_hi - _lo)], timeout=2400, path_timeout=300, drives=SRV_DRIVES,
       stubs=['network.recv -> scripted chunks then EOF', 'conn -> recorder', 'misc.timer -> counter', 'random -> counter', 'main.apidict (per-connection stats) -> dotdict'],
       symbolic=['t: EVERY truncation offset in [%d, %d) of the 160-byte request stream (the 8 shards cover 0..160)' % (_lo, _hi), 'v: the written value', 'c: a sender context byte'],
       bounds='request stream [Register, Write Tag A[1]=v, Read Tag A[0-3]] (160 bytes) through the real enip_srv_tcp receive loop, connection '
              'ending after every byte offset: replies == complete frames, the request processor is never invoked on a partial frame, tag changed '
              'iff the write frame is complete, handler raises iff a frame is partial, socket closed, stats entry removed',
       outside='other sessions/listener thread (C09 territory); UDP')
for _lo in list(range(0, 80, 10)) + list(range(80, 161, 5)):            # the cost of a shard grows with offset x split positions: narrower shards further in
  _hi = min(_lo + (10 if _lo < 80 else 5), 161)
  define(globals(), 'C02', 'truncation_two_chunks_%03d_%03d' % (_lo, _hi), ['v', 't', 'cut'], "return do_truncate(v, 7, %d + t, cut)" % _lo,
       ['-32768 <= v <= 32767 and 0 <= t < %d and 0 <= cut' % (_hi - _lo)], tier='thorough', timeout=6000, path_timeout=300, drives=SRV_DRIVES,
       stubs=['network.recv -> scripted chunks then EOF', 'conn -> recorder', 'misc.timer -> counter', 'random -> counter', 'main.apidict (per-connection stats) -> dotdict'],
       bounds='same for truncation offsets [%d, %d), the delivered prefix additionally split into two chunks at EVERY position' % (_lo, _hi), outside='')
