"""C04 -- fragmented transfers reassemble exactly and every fragment makes progress (server/enip/logix.py)."""
from vrt import glue, sim
from vrt.ob import obligation
import cpppo
from cpppo.server.enip import parser, device, logix

glue.activate(cpppo.automata, cpppo.dotdict, parser, device, logix)

KERNEL = ['cpppo.server.enip.logix.Logix.reply_elements', 'cpppo.server.enip.device.resolve_element']
DRIVEN = KERNEL + ['cpppo.server.enip.logix.Logix.request', 'cpppo.server.enip.logix.Logix.produce',
                   'cpppo.server.enip.device.Message_Router.route', 'cpppo.server.enip.device.resolve',
                   'cpppo.server.enip.device.lookup', 'cpppo.server.enip.device.Attribute.__getitem__',
                   'cpppo.server.enip.device.Attribute.__setitem__', 'cpppo.server.enip.parser.typed_data.produce']


class FakeAttr(object):
    """stands for an Attribute of arbitrary (symbolic, unbounded) length: reply_elements only uses
    len( attribute ) and attribute.parser.struct_calcsize"""
    def __init__(self, n, cls):
        self.n = n
        self.parser = cls()

    def __len__(self):
        return self.n


class FakeData(object):
    def __init__(self, n):
        self.n = n

    def __len__(self):
        return self.n


L = logix.Logix.__new__(logix.Logix)     # reply_elements uses no instance state but MAX_BYTES


def _read_step(cls, siz, frag, cnt, beg0, elm, off, maxsz, use_default):
    att = FakeAttr(cnt, cls)
    data = cpppo.dotdict()
    data.service = logix.Logix.RD_FRG_RPY if frag else logix.Logix.RD_TAG_RPY
    ctx = 'read_frag' if frag else 'read_tag'
    data.path = {'segment': [cpppo.dotdict(symbolic='x'), cpppo.dotdict(element=beg0)]}
    data[ctx] = {'elements': elm}
    if frag:
        data[ctx].offset = off
    else:
        off = 0
    lgx = L
    if use_default:
        lgx = logix.Logix.__new__(logix.Logix)
        lgx.MAX_BYTES = maxsz                      # the user-alterable budget
    else:
        data[ctx].max_size = maxsz
    beg, end, endactual, offremains, max_size = lgx.reply_elements(att, data, ctx)
    ok = beg == beg0 + off // siz                                  # starts at the element containing the offset
    ok = ok and beg < end and end <= endactual and endactual == beg0 + elm   # >= 1 whole element, never past the request
    ok = ok and (end - beg) * siz <= maxsz + siz - 1               # at most the budget rounded up to an element
    ok = ok and (end == endactual or (end - beg) * siz >= maxsz)   # maximal: short only when finished
    ok = ok and offremains == 0 and max_size == maxsz
    # the next offset makes strict progress and never overshoots => fragments tile [beg0, beg0+elm)
    nxt = off + (end - beg) * siz
    ok = ok and off < nxt <= elm * siz and (nxt == elm * siz) == (end == endactual)
    return ok


def _mk_read(cls, siz):
    name = 'read_step_%s' % cls.__name__

    def f(cnt: int, beg0: int, elm: int, k: int, maxsz: int, frag: bool, use_default: bool) -> bool:
        return _read_step(cls, siz, frag, cnt, beg0, elm, k * siz, maxsz, use_default)
    f.__name__ = name
    f.__qualname__ = name
    f.__doc__ = """
    pre: 1 <= cnt and 0 <= beg0 and 1 <= elm and beg0 + elm <= cnt
    pre: 0 <= k < elm and 1 <= maxsz
    post: _
    """
    f.__module__ = __name__
    return obligation('C04', timeout=300, path_timeout=60, drives=KERNEL,
                      symbolic=['cnt (tag length)', 'beg0 (start element)', 'elm (elements requested)',
                                'k (offset = k*%d bytes)' % siz, 'maxsz (reply budget: per-request max_size or Logix.MAX_BYTES)',
                                'frag (Read Tag Fragmented vs Read Tag)', 'use_default'],
                      bounds='UNBOUNDED ints (mathematical integers): any tag length, start, count, element-aligned offset '
                             'inside the request, any budget >= 1; element size %d' % siz,
                      outside='offsets that are not element aligned (documented as unsupported for basic types)')(f)


read_step_SINT = _mk_read(parser.SINT, 1)
read_step_INT = _mk_read(parser.INT, 2)
read_step_DINT = _mk_read(parser.DINT, 4)
read_step_LINT = _mk_read(parser.LINT, 8)
read_step_REAL = _mk_read(parser.REAL, 4)
read_step_LREAL = _mk_read(parser.LREAL, 8)
read_step_BOOL = _mk_read(parser.BOOL, 1)


@obligation('C04', timeout=300, path_timeout=60, drives=KERNEL,
            bounds='UNBOUNDED ints: tag length, start, count, offset (element aligned), number of values supplied; '
                   'element size 4 (DINT) and 2 (INT)',
            outside='')
def write_step(cnt: int, beg0: int, elm: int, k: int, n: int, frag: bool, two: bool) -> bool:
    """
    pre: 1 <= cnt and 0 <= beg0 and 1 <= elm and beg0 + elm <= cnt
    pre: 0 <= k and 0 <= n
    post: _
    """
    cls, siz = (parser.INT, 2) if two else (parser.DINT, 4)
    att = FakeAttr(cnt, cls)
    data = cpppo.dotdict()
    data.service = logix.Logix.WR_FRG_RPY if frag else logix.Logix.WR_TAG_RPY
    ctx = 'write_frag' if frag else 'write_tag'
    data.path = {'segment': [cpppo.dotdict(symbolic='x'), cpppo.dotdict(element=beg0)]}
    data[ctx] = {'elements': elm}
    dict.__setitem__(data[ctx], 'data', FakeData(n))
    off = 0
    if frag:
        off = k * siz
        data[ctx].offset = off
    fits = n >= 1 and beg0 + off // siz + n <= beg0 + elm
    try:
        beg, end, endactual, offremains, max_size = L.reply_elements(att, data, ctx)
    except AssertionError:
        return not fits                 # refused exactly when the supplied values do not fit the request
    return fits and beg == beg0 + off // siz and end == beg + n and endactual == beg0 + elm and offremains == 0


# ---- driven transfers through the real Logix.request ------------------------------------------------------
TAGS = sim.setup({'S': (parser.SINT, 6), 'I': (parser.INT, 6), 'D': (parser.DINT, 6), 'Q': (parser.LINT, 5),
                  'G': (parser.INT, 3)})
LGX = device.lookup(2, 1)
assert isinstance(LGX, logix.Logix)


def _read_all(name, siz, n, vals, guard, beg0, elm, budget, unroll, per_request):
    """Read Tag Fragmented loop as a client does it: advance offset by the bytes received."""
    att = sim.attribute(name)
    att.value[:] = vals
    g = sim.attribute('G')
    g.value[:] = guard
    saved = logix.Logix.MAX_BYTES
    if not per_request:
        logix.Logix.MAX_BYTES = budget
    try:
        got = []
        off = 0
        done = False
        ok = True
        for _ in range(unroll):
            r = cpppo.dotdict()
            r.path = sim.tagpath(name, beg0)
            r.read_frag = {'elements': elm, 'offset': off}
            if per_request:
                r.read_frag.max_size = budget
            LGX.request(r)
            if r.status not in (0, 6):
                return False
            d = list(r.read_frag.data)
            ok = ok and r.read_frag.type == att.parser.tag_type
            ok = ok and len(d) >= 1 and len(d) * siz <= budget + siz - 1
            got += d
            off += len(d) * siz
            if r.status == 0:
                done = True
                break
        # unwinding assertion: the transfer must have completed inside the unrolling
        return ok and done and got == list(vals[beg0:beg0 + elm]) and list(att.value) == list(vals) \
            and list(g.value) == list(guard)
    finally:
        logix.Logix.MAX_BYTES = saved


@obligation('C04', timeout=900, path_timeout=120, drives=DRIVEN,
            symbolic=['v0..v5 (tag contents, full INT range)', 'beg0', 'elm', 'budget (Logix.MAX_BYTES 1..5)'],
            bounds='INT[6] tag; every start/count inside the tag; class budget Logix.MAX_BYTES in 1..5 bytes (all alignments '
                   'of range end vs. budget); <= 6 fragments (unwinding asserted)',
            outside='tags longer than 6; budgets > 5 bytes with > 6 elements')
def read_transfer_INT(v0: int, v1: int, v2: int, v3: int, v4: int, v5: int, beg0: int, elm: int, budget: int) -> bool:
    """
    pre: all(-32768 <= v <= 32767 for v in (v0, v1, v2, v3, v4, v5))
    pre: 0 <= beg0 and 1 <= elm and beg0 + elm <= 6 and 1 <= budget <= 5
    post: _
    """
    return _read_all('I', 2, 6, [v0, v1, v2, v3, v4, v5], [7, 8, 9], beg0, elm, budget, 6, False)


@obligation('C04', timeout=900, path_timeout=120, drives=DRIVEN,
            symbolic=['v0..v5 (tag contents, full DINT range)', 'beg0', 'elm', 'budget (per-request max_size 1..9)'],
            bounds='DINT[6] tag; every start/count inside the tag; per-request max_size in 1..9 bytes; <= 6 fragments',
            outside='tags longer than 6')
def read_transfer_DINT(v0: int, v1: int, v2: int, v3: int, v4: int, v5: int, beg0: int, elm: int, budget: int) -> bool:
    """
    pre: all(-2**31 <= v < 2**31 for v in (v0, v1, v2, v3, v4, v5))
    pre: 0 <= beg0 and 1 <= elm and beg0 + elm <= 6 and 1 <= budget <= 9
    post: _
    """
    return _read_all('D', 4, 6, [v0, v1, v2, v3, v4, v5], [7, 8, 9], beg0, elm, budget, 6, True)


@obligation('C04', timeout=900, path_timeout=120, drives=DRIVEN,
            bounds='SINT[6] tag; every start/count; class budget 1..3 bytes; <= 6 fragments', outside='tags longer than 6')
def read_transfer_SINT(v0: int, v1: int, v2: int, v3: int, v4: int, v5: int, beg0: int, elm: int, budget: int) -> bool:
    """
    pre: all(-128 <= v <= 127 for v in (v0, v1, v2, v3, v4, v5))
    pre: 0 <= beg0 and 1 <= elm and beg0 + elm <= 6 and 1 <= budget <= 3
    post: _
    """
    return _read_all('S', 1, 6, [v0, v1, v2, v3, v4, v5], [7, 8, 9], beg0, elm, budget, 6, False)


def _write_tiled(name, siz, n, init, guard, beg0, pieces, vals):
    """Write Tag Fragmented requests whose offsets tile [beg0, beg0+len(vals)); then read everything back."""
    att = sim.attribute(name)
    att.value[:] = init
    g = sim.attribute('G')
    g.value[:] = guard
    elm = len(vals)
    off = 0
    at = 0
    for p in pieces:
        w = cpppo.dotdict()
        w.path = sim.tagpath(name, beg0)
        w.write_frag = {'elements': elm, 'offset': off, 'type': att.parser.tag_type, 'data': list(vals[at:at + p])}
        LGX.request(w)
        if w.status != 0:
            return False
        at += p
        off += p * siz
    exp = list(init)
    exp[beg0:beg0 + elm] = vals
    r = cpppo.dotdict()
    r.path = sim.tagpath(name)
    r.read_tag = {'elements': n}
    LGX.request(r)
    return (at == elm and r.status == 0 and list(r.read_tag.data) == exp and list(att.value) == exp
            and list(g.value) == list(guard))


@obligation('C04', timeout=900, path_timeout=120, drives=DRIVEN,
            symbolic=['i0..i5 (initial contents)', 'w0..w3 (written values)', 'beg0', 'cut1', 'cut2'],
            bounds='INT[6] tag; range of 4 elements at start 0..2 tiled by 1..3 Write Tag Fragmented pieces (cuts symbolic); '
                   'all values full INT range', outside='ranges longer than 4 elements')
def write_tiling_INT(i0: int, i1: int, i2: int, i3: int, i4: int, i5: int, w0: int, w1: int, w2: int, w3: int,
                     beg0: int, cut1: int, cut2: int) -> bool:
    """
    pre: all(-32768 <= v <= 32767 for v in (i0, i1, i2, i3, i4, i5, w0, w1, w2, w3))
    pre: 0 <= beg0 <= 2 and 1 <= cut1 <= cut2 <= 4
    post: _
    """
    pieces = [p for p in (cut1, cut2 - cut1, 4 - cut2) if p]
    return _write_tiled('I', 2, 6, [i0, i1, i2, i3, i4, i5], [7, 8, 9], beg0, pieces, [w0, w1, w2, w3])


@obligation('C04', tier='thorough', timeout=1800, path_timeout=120, drives=DRIVEN,
            bounds='LINT[5] tag; every start/count; per-request max_size 1..17 bytes; <= 5 fragments', outside='')
def read_transfer_LINT(v0: int, v1: int, v2: int, v3: int, v4: int, beg0: int, elm: int, budget: int) -> bool:
    """
    pre: all(-2**63 <= v < 2**63 for v in (v0, v1, v2, v3, v4))
    pre: 0 <= beg0 and 1 <= elm and beg0 + elm <= 5 and 1 <= budget <= 17
    post: _
    """
    return _read_all('Q', 8, 5, [v0, v1, v2, v3, v4], [7, 8, 9], beg0, elm, budget, 5, True)
