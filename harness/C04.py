"""C04 -- fragmented transfers reassemble exactly and every fragment makes progress (server/enip/logix.py)."""
from vrt import glue, sim
from vrt.ob import obligation
import cpppo
from cpppo.server.enip import parser, device, logix

glue.activate(cpppo.automata, cpppo.dotdict, parser, device, logix)

KERNEL = ['cpppo.server.enip.logix.Logix.reply_elements', 'cpppo.server.enip.device.resolve_element']
DRIVEN = KERNEL + ['cpppo.server.enip.logix.Logix.request', 'cpppo.server.enip.logix.Logix.produce',
                   'cpppo.server.enip.device.Message_Router.route', 'cpppo.server.enip.device.resolve',
                   'cpppo.server.enip.device.lookup', 'cpppo.server.enip.device.Attribute.__getitem__',
                   'cpppo.server.enip.device.Attribute.__setitem__', 'cpppo.server.enip.parser.typed_data.produce']


class FakeAttr(object):
    """stands for an Attribute of arbitrary (symbolic, unbounded) length: reply_elements only uses
    len( attribute ) and attribute.parser.struct_calcsize"""
    def __init__(self, n, cls):
        self.n = n
        self.parser = cls()

    def __len__(self):
        return self.n


class FakeData(object):
    def __init__(self, n):
        self.n = n

    def __len__(self):
        return self.n


L = logix.Logix.__new__(logix.Logix)     # reply_elements uses no instance state but MAX_BYTES


def _read_step(cls, siz, frag, cnt, beg0, elm, off, maxsz, use_default):
    att = FakeAttr(cnt, cls)
    data = cpppo.dotdict()
    data.service = logix.Logix.RD_FRG_RPY if frag else logix.Logix.RD_TAG_RPY
    ctx = 'read_frag' if frag else 'read_tag'
    data.path = {'segment': [cpppo.dotdict(symbolic='x'), cpppo.dotdict(element=beg0)]}
    data[ctx] = {'elements': elm}
    if frag:
        data[ctx].offset = off
    else:
        off = 0
    lgx = L
    if use_default:
        lgx = logix.Logix.__new__(logix.Logix)
        lgx.MAX_BYTES = maxsz                      # the user-alterable budget
    else:
        data[ctx].max_size = maxsz
    beg, end, endactual, offremains, max_size = lgx.reply_elements(att, data, ctx)
    ok = beg == beg0 + off // siz                                  # starts at the element containing the offset
    ok = ok and beg < end and end <= endactual and endactual == beg0 + elm   # >= 1 whole element, never past the request
    ok = ok and (end - beg) * siz <= maxsz + siz - 1               # at most the budget rounded up to an element
    ok = ok and (end == endactual or (end - beg) * siz >= maxsz)   # maximal: short only when finished
    ok = ok and offremains == 0 and max_size == maxsz
    # the next offset makes strict progress and never overshoots => fragments tile [beg0, beg0+elm)
    nxt = off + (end - beg) * siz
    ok = ok and off < nxt <= elm * siz and (nxt == elm * siz) == (end == endactual)
    return ok


def _mk_read(cls, siz):
    name = 'read_step_%s' % cls.__name__

    def f(cnt: int, beg0: int, elm: int, k: int, maxsz: int, frag: bool, use_default: bool) -> bool:
        return _read_step(cls, siz, frag, cnt, beg0, elm, k * siz, maxsz, use_default)
    f.__name__ = name
    f.__qualname__ = name
    f.__doc__ = """
    pre: 1 <= cnt and 0 <= beg0 and 1 <= elm and beg0 + elm <= cnt
    pre: 0 <= k < elm and 1 <= maxsz
    post: _
    """
    f.__module__ = __name__
    return obligation('C04', timeout=300, path_timeout=60, drives=KERNEL,
                      symbolic=['cnt (tag length)', 'beg0 (start element)', 'elm (elements requested)',
                                'k (offset = k*%d bytes)' % siz, 'maxsz (reply budget: per-request max_size or Logix.MAX_BYTES)',
                                'frag (Read Tag Fragmented vs Read Tag)', 'use_default'],
                      bounds='UNBOUNDED ints (mathematical integers): any tag length, start, count, element-aligned offset '
                             'inside the request, any budget >= 1; element size %d' % siz,
                      outside='offsets that are not element aligned (documented as unsupported for basic types)')(f)


read_step_SINT = _mk_read(parser.SINT, 1)
read_step_INT = _mk_read(parser.INT, 2)
read_step_DINT = _mk_read(parser.DINT, 4)
read_step_LINT = _mk_read(parser.LINT, 8)
read_step_REAL = _mk_read(parser.REAL, 4)
read_step_LREAL = _mk_read(parser.LREAL, 8)
read_step_BOOL = _mk_read(parser.BOOL, 1)


@obligation('C04', timeout=300, path_timeout=60, drives=KERNEL,
            bounds='UNBOUNDED ints: tag length, start, count, offset (element aligned), number of values supplied; '
                   'element size 4 (DINT) and 2 (INT)',
            outside='')
def write_step(cnt: int, beg0: int, elm: int, k: int, n: int, frag: bool, two: bool) -> bool:
    """
    pre: 1 <= cnt and 0 <= beg0 and 1 <= elm and beg0 + elm <= cnt
    pre: 0 <= k and 0 <= n
    post: _
    """
    cls, siz = (parser.INT, 2) if two else (parser.DINT, 4)
    att = FakeAttr(cnt, cls)
    data = cpppo.dotdict()
    data.service = logix.Logix.WR_FRG_RPY if frag else logix.Logix.WR_TAG_RPY
    ctx = 'write_frag' if frag else 'write_tag'
    data.path = {'segment': [cpppo.dotdict(symbolic='x'), cpppo.dotdict(element=beg0)]}
    data[ctx] = {'elements': elm}
    dict.__setitem__(data[ctx], 'data', FakeData(n))
    off = 0
    if frag:
        off = k * siz
        data[ctx].offset = off
    fits = n >= 1 and beg0 + off // siz + n <= beg0 + elm
    try:
        beg, end, endactual, offremains, max_size = L.reply_elements(att, data, ctx)
    except AssertionError:
        return not fits                 # refused exactly when the supplied values do not fit the request
    return fits and beg == beg0 + off // siz and end == beg + n and endactual == beg0 + elm and offremains == 0


# ---- driven transfers through the real Logix.request ------------------------------------------------------
TAGS = sim.setup({'S': (parser.SINT, 6), 'I': (parser.INT, 6), 'D': (parser.DINT, 6), 'Q': (parser.LINT, 5),
                  'G': (parser.INT, 3)})
LGX = device.lookup(2, 1)
assert isinstance(LGX, logix.Logix)


def _read_all(name, siz, n, vals, guard, beg0, elm, budget, unroll, per_request):
    """Read Tag Fragmented loop as a client does it: advance offset by the bytes received."""
    att = sim.attribute(name)
    att.value[:] = vals
    g = sim.attribute('G')
    g.value[:] = guard
    saved = logix.Logix.MAX_BYTES
    if not per_request:
        logix.Logix.MAX_BYTES = budget
    try:
        got = []
        off = 0
        done = False
        ok = True
        for _ in range(unroll):
            r = cpppo.dotdict()
            r.path = sim.tagpath(name, beg0)
            r.read_frag = {'elements': elm, 'offset': off}
            if per_request:
                r.read_frag.max_size = budget
            LGX.request(r)
            if r.status not in (0, 6):
                return False
            d = list(r.read_frag.data)
            ok = ok and r.read_frag.type == att.parser.tag_type
            ok = ok and len(d) >= 1 and len(d) * siz <= budget + siz - 1
            got += d
            off += len(d) * siz
            if r.status == 0:
                done = True
                break
        # unwinding assertion: the transfer must have completed inside the unrolling
        return ok and done and got == list(vals[beg0:beg0 + elm]) and list(att.value) == list(vals) \
            and list(g.value) == list(guard)
    finally:
        logix.Logix.MAX_BYTES = saved


def _mk_read_transfer(tag, cls, siz, n, budget, per_request, tier):
    lo, hi = sim.RANGE[cls.__name__]
    name = 'read_xfer_%s_%s%d' % (cls.__name__, 'maxsize' if per_request else 'MAXBYTES', budget)
    params = ", ".join("v%d: int" % i for i in range(n))
    src = (
        "def {name}({params}, beg0: int, elm: int) -> bool:\n"
        "    return _read_all({tag!r}, {siz}, {n}, [{vs}], [7, 8, 9], beg0, elm, {budget}, {n}, {per_request})\n"
    ).format(name=name, params=params, tag=tag, siz=siz, n=n, vs=", ".join("v%d" % i for i in range(n)),
             budget=budget, per_request=per_request)
    ns = {}
    exec(compile(src, __file__, 'exec'), globals(), ns)
    f = ns[name]
    f.__module__ = __name__
    f.__doc__ = """
    pre: {conj}
    pre: 0 <= beg0 and 1 <= elm and beg0 + elm <= {n}
    post: _
    """.format(conj=" and ".join("%d <= v%d <= %d" % (lo, i, hi) for i in range(n)), n=n)
    globals()[name] = obligation(
        'C04', tier=tier, timeout=900, path_timeout=120, drives=DRIVEN,
        symbolic=['v0..v%d (tag contents, full %s range)' % (n - 1, cls.__name__), 'beg0 (start element)', 'elm (count)'],
        bounds='%s[%d] tag, every start/count inside the tag, reply budget %d bytes via %s; client loop "advance offset by '
               'bytes received" unrolled %d times with unwinding assertion' % (
                   cls.__name__, n, budget, 'per-request max_size' if per_request else 'class attribute Logix.MAX_BYTES', n),
        outside='tags longer than %d elements' % n)(f)


for _b in (1, 2, 3, 4, 5):
    _mk_read_transfer('I', parser.INT, 2, 6, _b, False, 'quick' if _b in (1, 3, 4) else 'thorough')
for _b in (1, 4, 5, 7, 8, 9):
    _mk_read_transfer('D', parser.DINT, 4, 6, _b, True, 'quick' if _b in (5, 8) else 'thorough')
for _b in (1, 2, 3):
    _mk_read_transfer('S', parser.SINT, 1, 6, _b, False, 'quick' if _b == 2 else 'thorough')
for _b in (1, 8, 9, 15, 16, 17):
    _mk_read_transfer('Q', parser.LINT, 8, 5, _b, True, 'quick' if _b == 9 else 'thorough')


def _write_tiled(name, siz, n, init, guard, beg0, pieces, vals):
    """Write Tag Fragmented requests whose offsets tile [beg0, beg0+len(vals)); then read everything back."""
    att = sim.attribute(name)
    att.value[:] = init
    g = sim.attribute('G')
    g.value[:] = guard
    elm = len(vals)
    off = 0
    at = 0
    for p in pieces:
        w = cpppo.dotdict()
        w.path = sim.tagpath(name, beg0)
        w.write_frag = {'elements': elm, 'offset': off, 'type': att.parser.tag_type, 'data': list(vals[at:at + p])}
        LGX.request(w)
        if w.status != 0:
            return False
        at += p
        off += p * siz
    exp = list(init[:beg0]) + list(vals) + list(init[beg0 + elm:])
    r = cpppo.dotdict()
    r.path = sim.tagpath(name)
    r.read_tag = {'elements': n}
    LGX.request(r)
    return (at == elm and r.status == 0 and list(r.read_tag.data) == exp and list(att.value) == exp
            and list(g.value) == list(guard))


def _compositions(total, maxparts):
    if total == 0:
        yield []
        return
    if maxparts == 0:
        return
    for first in range(1, total + 1):
        for rest in _compositions(total - first, maxparts - 1):
            yield [first] + rest


def _mk_write_tiling(tag, cls, siz, n, beg0, pieces, tier):
    lo, hi = sim.RANGE[cls.__name__]
    k = sum(pieces)
    name = 'write_tile_%s_at%d_%s' % (cls.__name__, beg0, "_".join(map(str, pieces)))
    ivs = ["i%d" % i for i in range(n)]
    wvs = ["w%d" % i for i in range(k)]
    src = (
        "def {name}({params}) -> bool:\n"
        "    return _write_tiled({tag!r}, {siz}, {n}, [{ivs}], [7, 8, 9], {beg0}, {pieces!r}, [{wvs}])\n"
    ).format(name=name, params=", ".join(v + ": int" for v in ivs + wvs), tag=tag, siz=siz, n=n, ivs=", ".join(ivs),
             beg0=beg0, pieces=pieces, wvs=", ".join(wvs))
    ns = {}
    exec(compile(src, __file__, 'exec'), globals(), ns)
    f = ns[name]
    f.__module__ = __name__
    f.__doc__ = """
    pre: {conj}
    post: _
    """.format(conj=" and ".join("%d <= %s <= %d" % (lo, v, hi) for v in ivs + wvs))
    globals()[name] = obligation(
        'C04', tier=tier, timeout=600, path_timeout=120, drives=DRIVEN,
        symbolic=['i* (initial contents)', 'w* (written values)'],
        bounds='%s[%d] tag; %d elements at start %d written by Write Tag Fragmented pieces %r (offsets tile the range); all '
               'values full range; then whole-tag Read Tag' % (cls.__name__, n, k, beg0, pieces),
        outside='')(f)


for _i, _p in enumerate(_compositions(4, 3)):
    _mk_write_tiling('I', parser.INT, 2, 6, _i % 3, _p, 'quick' if _i % 2 == 0 else 'thorough')
for _i, _p in enumerate(_compositions(3, 3)):
    _mk_write_tiling('D', parser.DINT, 4, 6, (_i * 2) % 4, _p, 'quick' if _i % 2 == 1 else 'thorough')
