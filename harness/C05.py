"""C05 -- invalid requests are refused without side effects; accepted writes stay readable."""
from vrt import glue, sim
from vrt.ob import define, obligation
import cpppo
from cpppo.server.enip import parser, device, logix

glue.activate(cpppo.automata, cpppo.dotdict, parser, device, logix)

TYPES = [parser.SINT, parser.USINT, parser.INT, parser.UINT, parser.DINT, parser.UDINT, parser.LINT, parser.ULINT]
N = 4
SPEC = {}
for _k, _t in enumerate(TYPES):
    SPEC['T' + _t.__name__] = (_t, N, '@0x401/1/%d' % (_k + 1))
SPEC['NB'] = (parser.DINT, 2, '@0x401/1/30')
TAGS = sim.setup(SPEC)
LGX = device.lookup(2, 1)

DRIVES = ['cpppo.server.enip.logix.Logix.request', 'cpppo.server.enip.logix.Logix.reply_elements',
          'cpppo.server.enip.logix.Logix.produce', 'cpppo.server.enip.device.Object.request',
          'cpppo.server.enip.device.Attribute.__getitem__', 'cpppo.server.enip.device.Attribute.__setitem__',
          'cpppo.server.enip.device.Attribute._validate_key', 'cpppo.server.enip.device.Attribute.produce',
          'cpppo.server.enip.parser.TYPE.produce', 'cpppo.server.enip.parser.typed_data.produce',
          'cpppo.server.enip.device.resolve', 'cpppo.server.enip.device.lookup']

# the documented compatibility table (DESIGN: written from the property text, not read from the code):
# a request type is acceptable iff the tag's type can hold every value of it, or it is the unsigned twin
# that the code documents as "more restricted signed types into more spacious types"
BITS = {'SINT': 8, 'USINT': 8, 'INT': 16, 'UINT': 16, 'DINT': 32, 'UDINT': 32, 'LINT': 64, 'ULINT': 64}


def as_type(v, tn):
    """v as represented in integer type tn (two's complement wrap)"""
    bits = BITS[tn]
    v = v % (1 << bits)
    if tn[0] != 'U' and v >= 1 << (bits - 1):
        v -= 1 << bits
    return v


def fits(v, tn):
    lo, hi = sim.RANGE[tn]
    return lo <= v <= hi


def do_cross_write(tcls, rcls, vals, v, idx, nb):
    tag = 'T' + tcls.__name__
    att = sim.attribute(tag)
    att.value[:] = vals
    sim.attribute('NB').value[:] = [nb, 5]
    w = cpppo.dotdict()
    w.path = sim.tagpath(tag, idx)
    w.write_tag = {'type': rcls.tag_type, 'elements': 1, 'data': [v]}
    LGX.request(w)
    after = list(att.value)
    ok = list(sim.attribute('NB').value) == [nb, 5] and len(after) == N
    if w.status != 0:
        # refused: no side effect whatsoever, and the documented failure indication
        ok = ok and after == list(vals) and w.status == 0xFF and list(w.status_ext.data) in ([0x2107], [0x2105])
        if BITS[rcls.__name__] > BITS[tcls.__name__]:
            ok = ok and list(w.status_ext.data) == [0x2107]         # type mismatch
        return ok
    # acknowledged: only the addressed element changed, and the tag stays readable with the value
    # as represented in the tag's own type
    exp = list(vals)
    exp[idx] = as_type(v, tcls.__name__)
    r = cpppo.dotdict()
    r.path = sim.tagpath(tag, 0)
    r.read_tag = {'elements': N}
    try:
        LGX.request(r)                         # includes producing the reply bytes
    except Exception:
        return False                           # an accepted write made the tag unreadable
    return (ok and r.status == 0 and list(r.read_tag.data) == exp and r.read_tag.type == tcls.tag_type
            and len(r.input) == 4 + 2 + N * (BITS[tcls.__name__] // 8))


VS = ['v%d' % i for i in range(N)]


def rng(tn, names):
    lo, hi = sim.RANGE[tn]
    return " and ".join('%d <= %s <= %d' % (lo, n, hi) for n in names)


QUICK_PAIRS = {('SINT', 'USINT'), ('INT', 'UINT'), ('DINT', 'UDINT'), ('LINT', 'ULINT'), ('USINT', 'SINT'), ('INT', 'SINT'),
               ('UINT', 'USINT'), ('SINT', 'INT'), ('DINT', 'INT'), ('UDINT', 'UINT'), ('ULINT', 'UDINT'), ('INT', 'INT'),
               ('LINT', 'UDINT'), ('UINT', 'INT'), ('DINT', 'LINT'), ('ULINT', 'ULINT')}
for _t in TYPES:
    for _r in TYPES:
        tn, rn = _t.__name__, _r.__name__
        define(globals(), 'C05', 'xw_%s_from_%s' % (tn, rn), VS + ['v', 'idx', 'nb'],
               "return do_cross_write(parser.%s, parser.%s, [%s], v, idx, nb)" % (tn, rn, ", ".join(VS)),
               [rng(tn, VS), rng(rn, ['v']), '0 <= idx < %d' % N, '-2**31 <= nb < 2**31'],
               tier='quick' if (tn, rn) in QUICK_PAIRS else 'thorough', timeout=600, path_timeout=120, drives=DRIVES,
               symbolic=['v0..v3: prior contents of the %s[4] tag' % tn, 'v: written value over the full %s range' % rn, 'idx', 'nb: neighbour'],
               bounds='Write Tag of one %s value (any value of that type) into element idx of a %s[4] tag, then Read Tag of the '
                      'whole tag' % (rn, tn), outside='REAL/LREAL/BOOL/STRING request or tag types (concrete only)')


# ---- range errors ------------------------------------------------------------------------------------------
def do_range(kind, tag, vals, idx, cnt, nvals, off, nb):
    att = sim.attribute(tag)
    att.value[:] = vals
    sim.attribute('NB').value[:] = [nb, 5]
    r = cpppo.dotdict()
    r.path = sim.tagpath(tag, idx)
    siz = att.parser.struct_calcsize
    new = [1, 2, 3, 4, 5, 6][:nvals]
    if kind in ('read_tag', 'read_frag'):
        r[kind] = {'elements': cnt}
    else:
        r[kind] = {'elements': cnt, 'type': att.parser.tag_type, 'data': new}
    if kind.endswith('frag'):
        r[kind].offset = off * siz
    else:
        off = 0
    LGX.request(r)
    after = list(att.value)
    ok = list(sim.attribute('NB').value) == [nb, 5] and len(after) == N
    beg = idx + off
    if kind.startswith('read'):
        valid = cnt >= 1 and idx + cnt <= N and off < cnt
        if valid:
            return ok and r.status == 0 and list(r[kind].data) == list(vals[beg:idx + cnt]) and after == list(vals)
        return ok and r.status == 0xFF and list(r.status_ext.data) == [0x2105] and after == list(vals) and 'data' not in r[kind]
    valid = nvals >= 1 and idx + cnt <= N and beg + nvals <= idx + cnt
    if valid:
        return ok and r.status == 0 and after == list(vals[:beg]) + new + list(vals[beg + nvals:])
    return ok and r.status == 0xFF and list(r.status_ext.data) == [0x2105] and after == list(vals)


for kind in ('read_tag', 'read_frag', 'write_tag', 'write_frag'):
    for tn in ('INT', 'UDINT'):
        define(globals(), 'C05', 'range_%s_%s' % (kind, tn), VS + ['idx', 'cnt', 'nvals', 'off', 'nb'],
               "return do_range(%r, %r, [%s], idx, cnt, nvals, off, nb)" % (kind, 'T' + tn, ", ".join(VS)),
               [rng(tn, VS), '0 <= idx <= %d and 0 <= cnt <= %d and 0 <= nvals <= %d and 0 <= off <= %d' % (N + 1, N + 2, N + 2, N + 1),
                '-2**31 <= nb < 2**31'] + (['nvals == 0'] if kind.startswith('read') else []) + (['off == 0'] if not kind.endswith('frag') else []),
               tier='quick' if (kind, tn) in (('read_tag', 'INT'), ('read_frag', 'UDINT'), ('write_tag', 'UDINT'), ('write_frag', 'INT')) else 'thorough',
               timeout=900, path_timeout=120, drives=DRIVES,
               symbolic=['v0..v3: contents', 'idx 0..5', 'cnt (elements) 0..6', 'nvals (values supplied) 0..6', 'off (element offset, fragmented) 0..5'],
               bounds='%s on a %s[4] tag with every start index 0..len+1, element count 0..len+2, supplied values 0..len+2 and '
                      'fragment offset 0..len+1 elements: valid => exact array semantics, invalid => 0xFF/0x2105 and no change' % (kind, tn),
               outside='')


@obligation('C05', timeout=300, path_timeout=60, drives=DRIVES,
            bounds='Read/Write Tag of attribute ids 9..200 that do not exist in an existing object; unknown tag names; unknown object',
            symbolic=['att: the (non-existent) attribute id'], outside='')
def unknown_targets(v0: int, v1: int, v2: int, v3: int, which: int) -> bool:
    """
    pre: -32768 <= v0 <= 32767 and -32768 <= v1 <= 32767 and -32768 <= v2 <= 32767 and -32768 <= v3 <= 32767 and 0 <= which <= 5
    post: _
    """
    att = sim.attribute('TINT')
    att.value[:] = [v0, v1, v2, v3]
    r = cpppo.dotdict()
    if which % 3 == 0:
        r.path = sim.numpath(0x401, 1, 99, 0)          # existing object, unknown attribute
    elif which % 3 == 1:
        r.path = sim.tagpath('nosuchtag', 0)           # unknown tag
    else:
        r.path = sim.numpath(0x402, 7, 1, 0)           # unknown object
    if which < 3:
        r.read_tag = {'elements': 1}
    else:
        r.write_tag = {'elements': 1, 'type': parser.INT.tag_type, 'data': [1]}
    LGX.request(r)
    return r.status == 0x05 and list(att.value) == [v0, v1, v2, v3]


def do_sas_count(vals, nbytes, b):
    att = sim.attribute('TINT')
    att.value[:] = vals
    w = cpppo.dotdict()
    w.path = sim.numpath(0x401, 1, 3)
    w.set_attribute_single = {'data': [b, 1, 2, 3, 4, 5, 6, 7, 8, 9, 10, 11][:nbytes]}
    LGX.request(w)
    if nbytes == 2 * N:
        return w.status == 0 and list(att.value) == [b + 256, 2 + 3 * 256, 4 + 5 * 256, 6 + 7 * 256]
    return w.status != 0 and list(att.value) == list(vals)


define(globals(), 'C05', 'set_attribute_single_count', VS + ['nbytes', 'b'],
       "return do_sas_count([%s], nbytes, b)" % ", ".join(VS),
       [rng('INT', VS), '0 <= nbytes <= 12 and 0 <= b <= 127'], timeout=300, path_timeout=60, drives=DRIVES,
       bounds='Set Attribute Single on an INT[4] attribute with 0..12 data bytes: only exactly 8 bytes are accepted; otherwise '
              'refused and nothing changes', outside='')
