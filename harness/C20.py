"""C20 -- tnetstring serialisation round-trips and the streaming parser agrees with it (server/tnetstrings.py, server/tnet.py)."""
from vrt import glue
from vrt.ob import define, obligation, concretize
import cpppo
from cpppo.server import tnet, tnetstrings

glue.activate(cpppo.automata, cpppo.dotdict, tnet, tnetstrings)

M = tnet.tnet_machine()
DRIVES = ['cpppo.server.tnet.tnet_machine (SIZE integer_bytes, DATA dfa repeat=..size, TYPE tnet_parser.process)', 'cpppo.automata.state.run',
          'cpppo.automata.dfa_base.delegate', 'cpppo.automata.integer_base.terminate', 'cpppo.automata.string_base.terminate']


def feed(stream, cut):
    cut = concretize(cut, len(stream) + 1)
    chunks = [stream[cut:]]
    src = cpppo.chainable(stream[:cut])
    data = cpppo.dotdict()
    failed = False
    with M as m:
        try:
            for mch, sta in m.run(source=src, data=data):
                if sta is None and src.peek() is None and chunks:
                    src.chain(chunks.pop(0))
        except Exception:
            failed = True
        term = m.terminal and not failed
    while chunks:
        src.chain(chunks.pop(0))
    return data, src.sent, src.peek(), term


def digits(n):
    return [ord(c) for c in str(n)]


def do_stream(n, payload, typ, tail, cut):
    """SIZE ':' DATA TYPE tail  with n concrete (shape), payload/type/tail/cut symbolic"""
    msg = digits(n) + [58] + payload + [typ]
    stream = msg + tail
    d, sent, nxt, term = feed(stream, cut)
    if typ == 36 and any(b >= 128 for b in payload):
        return True                                         # non-ascii text: utf-8 validity is outside this claim
    if typ == 35 and not (n >= 1 and all(48 <= b <= 57 for b in payload)):
        # an integer payload that is not plain digits (dump never writes one): the property only asks for agreement with the
        # non-streaming parser, which leaves the verdict to int() (so ' 0' or '+1' are integers for both, ' ' or 'x' for neither)
        try:
            want = int(bytes(bytearray([concretize(b, 256) for b in payload])))   # tnetstrings.parse_payload: `int(payload)`, on solver-enumerated concrete bytes
        except Exception:
            return not term
        return term and sent == len(msg) and nxt == (tail[0] if tail else None) and d.tnet.type.input == want
    valid = typ == 44 or (typ == 126 and n == 0) or typ == 36 or typ == 35
    if not valid:
        return not term                                     # never reported as a complete message
    ok = term and sent == len(msg) and nxt == (tail[0] if tail else None)
    v = d.tnet.type.input
    if typ == 44:
        return ok and isinstance(v, (bytes, bytearray)) and not isinstance(v, str) and [x for x in v] == payload
    if typ == 36:
        return ok and isinstance(v, str) and [ord(c) for c in v] == payload
    if typ == 35:
        exp = 0
        for b in payload:
            exp = exp * 10 + (b - 48)
        return ok and v == exp
    return ok and v is None


TYPES = {'bytes': 44, 'text': 36, 'int': 35, 'null': 126}
QUICK_STREAM = {(0, 'null'), (0, 'bytes'), (1, 'int'), (2, 'bytes'), (2, 'other'), (3, 'text'), (2, 'int'), (1, 'null'), (1, 'int_nondigit')}
for n in (0, 1, 2, 3, 5):
    ps = ['p%d' % i for i in range(n)]
    for tname, tcode in list(TYPES.items()) + [('other', None), ('int_nondigit', 35)]:
        if tname in ('int', 'int_nondigit') and n > 2:
            continue                                   # int() realises the digits: kept to <= 2 digits
        if tname == 'int_nondigit' and n == 0:
            continue
        params = ps + (['typ'] if tcode is None else []) + ['t0', 'cut']
        pre = [" and ".join('0 <= %s <= 255' % p for p in ps + ['t0']), '0 <= cut']
        if tcode is None:
            pre.append('0 <= typ <= 255 and typ != 44 and typ != 36 and typ != 35 and typ != 126')
        if tname == 'text':
            pre.append(" and ".join('%s < 128' % p for p in ps) or 'True')
        if tname == 'int':
            pre.append(" and ".join(('48 <= %s <= 57' if k == 0 else '48 <= %s <= 50') % p for k, p in enumerate(ps)) or 'True')
        if tname == 'int_nondigit':
            pre.append('(32 <= p0 < 48 or 57 < p0 <= 70)' + (' and 48 <= p1 <= 49' if n > 1 else ''))
        define(globals(), 'C20', 'stream_size%d_%s' % (n, tname), params,
               "return do_stream(%d, [%s], %s, [t0], cut)" % (n, ", ".join(ps), 'typ' if tcode is None else tcode), pre,
               tier='quick' if (n, tname) in QUICK_STREAM else 'thorough',
               timeout=1800, path_timeout=120, drives=DRIVES,
               symbolic=['p*: %d payload bytes 0..255 (colons, commas, digits and type tags occur inside the payload)' % n,
                         'typ' if tcode is None else 'type %r' % chr(tcode), 't0: following data', 'cut: two-way chunking position'],
               bounds='streaming parser on SIZE=%d ":" DATA TYPE(%s) + 1 following byte, every two-way chunking: supported types extract exactly the '
                      'payload (bytes / ascii text / integer / null), stop exactly at the end of the message and leave the following data; an '
                      'unsupported/invalid type or mismatching content is never reported as a complete message' % (n, tname),
               outside='payloads longer than 5 bytes; integers of more than 2 digits; non-ascii text; float/bool/list/dict types (not supported by the streaming parser)')


def do_dump_agree(bs, tail, cut):
    b = bytes(bytearray(bs))
    stream = [x for x in tnetstrings.dump(b)] + tail
    d, sent, nxt, term = feed(stream, cut)
    return term and [x for x in d.tnet.type.input] == bs and sent == len(stream) - len(tail) and nxt == tail[0]


for n in (0, 2, 4):
    ps = ['p%d' % i for i in range(n)]
    define(globals(), 'C20', 'stream_agrees_with_dump_%d' % n, ps + ['t0', 'cut'],
           "return do_dump_agree([%s], [t0], cut)" % ", ".join(ps),
           [" and ".join('0 <= %s <= 255' % p for p in ps + ['t0']), '0 <= cut'], timeout=1800, path_timeout=120,
           drives=DRIVES + ['cpppo.server.tnetstrings.dump'],
           bounds='tnetstrings.dump of any %d-byte string, fed to the streaming parser in any two-way chunking followed by 1 more byte' % n, outside='')

ALPHA = [':', ',', '#', '5', 'x', u'é', '~', ']']


def pick(i):
    return ALPHA[i % len(ALPHA)]


def do_roundtrip_scalar(kind, i, c0, c1, c2, n):
    if kind == 'int':
        v = i
    elif kind == 'bool':
        v = bool(i % 2)
    elif kind == 'none':
        v = None
    elif kind == 'bytes':
        v = u''.join([pick(c0), pick(c1), pick(c2)][:n]).encode('utf-8')
    else:
        v = u''.join([pick(c0), pick(c1), pick(c2)][:n])
    s = tnetstrings.dump(v)
    got, rest = tnetstrings.parse(s + b'XYZ')
    return got == v and type(got) is type(v) and rest == b'XYZ'


define(globals(), 'C20', 'roundtrip_int', ['i'], "return do_roundtrip_scalar('int', i, 0, 0, 0, 0)", ['-1001 <= i <= 1001'], timeout=1800, path_timeout=60,
       drives=['cpppo.server.tnetstrings.dump', 'cpppo.server.tnetstrings.parse', 'cpppo.server.tnetstrings.parse_payload'],
       bounds='integers -1001..1001 (sign and every digit-count boundary up to 4 digits); str()/int() realise the value, so this is enumerated by the solver', outside='larger integers')
for kind in ('bytes', 'text'):
    define(globals(), 'C20', 'roundtrip_%s' % kind, ['c0', 'c1', 'c2', 'n'], "return do_roundtrip_scalar(%r, 0, c0, c1, c2, n)" % kind,
           ['0 <= c0 and 0 <= c1 and 0 <= c2 and 0 <= n <= 3'], timeout=1800, path_timeout=60,
           drives=['cpppo.server.tnetstrings.dump', 'cpppo.server.tnetstrings.parse', 'cpppo.server.tnetstrings.parse_payload'],
           bounds='%s of 0..3 characters drawn from the delimiter alphabet %r (colons, commas, type tags, digits, multi-byte)' % (kind, ALPHA), outside='other characters')


def build(shape, leaves):
    """shape: nested tuple structure of 'L' lists / 'D' dicts with leaf slots; leaves consumed in order"""
    if shape == '*':
        return leaves.pop(0)
    kind, kids = shape
    if kind == 'L':
        return [build(k, leaves) for k in kids]
    return {"k%d" % i: build(k, leaves) for i, k in enumerate(kids)}


SHAPES = {
    'list2': ('L', ['*', '*']),
    'dict2': ('D', ['*', '*']),
    'list_in_dict': ('D', ['*', ('L', ['*', '*'])]),
    'dict_in_list': ('L', [('D', ['*']), '*', ('L', [])]),
    'deep': ('L', [('L', [('D', ['*'])]), ('D', [])]),
}


LEAVES = [0, -7, 123, True, None, b'', b'5:x,', u'\xe9#']


def leaf(sel):
    return LEAVES[sel % len(LEAVES)]


def do_roundtrip_container(shape, s0, s1, s2):
    leaves = [leaf(s0), leaf(s1), leaf(s2)]
    v = build(SHAPES[shape], leaves)
    s = tnetstrings.dump(v)
    got, rest = tnetstrings.parse(s)
    return got == v and rest == b'' and repr(got) == repr(v)


for shape in SHAPES:
    define(globals(), 'C20', 'roundtrip_%s' % shape, ['s0', 's1', 's2'], "return do_roundtrip_container(%r, s0, s1, s2)" % shape,
           ['0 <= s0 <= 7 and 0 <= s1 <= 7 and 0 <= s2 <= 7'],
           tier='quick' if shape in ('list2',) else 'thorough', timeout=2400, path_timeout=60,
           drives=['cpppo.server.tnetstrings.dump', 'cpppo.server.tnetstrings.dump_list', 'cpppo.server.tnetstrings.dump_dict', 'cpppo.server.tnetstrings.parse',
                   'cpppo.server.tnetstrings.parse_list', 'cpppo.server.tnetstrings.parse_dict', 'cpppo.server.tnetstrings.parse_payload'],
           bounds='container shape %s with every leaf chosen (solver-enumerated selector) among %r; equal value AND equal types (repr) and '
                  'whole string consumed' % (shape, LEAVES), outside='floats; deeper nesting; other leaf values')


# floats are CONCRETE (the solver would treat them as reals): boundary values chosen by a solver-enumerated selector, incl. values that need all 17
# significant digits, the smallest subnormal, the largest finite value, negative zero
FLOATS = [0.0, -0.0, 1.0, 2.3, 0.1 + 0.2, 1.1 + 2.2, 123456.78901234567, 1.0 / 3, 1e22, 1e-7, 5e-324, 1.7976931348623157e308, -2.5e-5,
          9007199254740994.0, 1e16, -1.0 / 3]


def do_roundtrip_float(sel, nested):
    v = FLOATS[concretize(sel, len(FLOATS))]
    w = [v, {'k': v}] if nested else v
    got, rest = tnetstrings.parse(tnetstrings.dump(w) + b'#')
    g = got[1]['k'] if nested else got
    return repr(got) == repr(w) and type(g) is float and rest == b'#'


define(globals(), 'C20', 'roundtrip_float_selected', ['sel', ('nested', 'bool')], "return do_roundtrip_float(sel, nested)", ['0 <= sel < %d' % len(FLOATS)],
       timeout=1800, path_timeout=60, drives=['cpppo.server.tnetstrings.dump', 'cpppo.server.tnetstrings.parse', 'cpppo.server.tnetstrings.parse_payload'],
       bounds='CONCRETE floats %r (selector enumerated by the solver), bare and nested in a list + dict: parse(dump(v)) has the identical repr (bit-exact value, '
              'sign of zero) and type' % (FLOATS,), outside='all other floats (floats are not symbolic in this technique); nan (not equal to itself)')
