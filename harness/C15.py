"""C15 -- route-path filtering follows the configured device personality."""
from vrt import glue, sim, ref_cip as ref
from vrt.ob import define, concretize
import cpppo
from cpppo.server.enip import parser, device, logix, ucmm

glue.activate(cpppo.automata, cpppo.dotdict, parser, device, logix, ucmm)
TAGS = sim.setup({'A': (parser.INT, 4)})
UC = logix.setup()            # the UCMM instance the simulator uses
assert isinstance(UC, ucmm.UCMM)

DRIVES = ['cpppo.server.enip.ucmm.UCMM.request (route_path acceptance assertion, local dispatch)', 'cpppo.server.enip.logix.process',
          'cpppo.server.enip.parser.unconnected_send / route_path (machine)', 'cpppo.server.enip.device.Connection_Manager.request',
          'cpppo.server.enip.logix.Logix.request']


def seg(p, l, adr):
    if adr == 'str':
        return {'port': p, 'link': '0123456789'[concretize(l, 10)]}           # an ADDRESS-kind link that spells a number: differs in link kind from numeric l
    return {'port': p, 'link': ('10.0.0.1', '10.0.0.2', '10.0.0.13', '10.0.0.200')[concretize(l, 4)] if adr else l}


def request_bytes(service, v):
    a = [{'symbolic': 'A'}, {'element': 1}]
    if service == 'read':
        return ref.read_tag(a, 1)
    if service == 'write':
        return ref.write_tag(a, 0xc3, [v])
    return ref.get_attributes_all([{'class': 1}, {'instance': 1}])


def do_route(config, req_route, service, v, intended=Ellipsis):
    """config: None (any) | False (simple) | list of segments;   req_route: None (no Unconnected Send wrapper) | list of segments"""
    UC.route_path = config
    sim.attribute('A').value[:] = [1, 2, 3, 4]
    req = request_bytes(service, v)
    body = req if req_route is None else ref.unconnected_send(req, req_route)
    frame = ref.encap(0x6f, 55, 0, [3] * 8, 0, ref.send_rr_data([(0, []), (0xb2, body)]))
    try:
        proceed, rpy, data = sim.process(frame, tags=TAGS)
    finally:
        UC.route_path = None
    if not proceed or rpy is None:
        return False
    e = ref.un_encap([x for x in rpy])
    if intended is not Ellipsis:
        config = intended                       # acceptance is judged against the personality that was ASKED for
    accept = config is None or not req_route or (bool(config) and req_route == config)
    after = list(sim.attribute('A').value)
    if not accept:
        # refused: an error status and NO tag access
        return e['status'] != 0 and after == [1, 2, 3, 4] and e['context'] == [3] * 8
    items, _ = ref.un_cpf(e['payload'][6:])
    r = ref.un_reply(items[1][1])
    ok = e['status'] == 0 and r['status'] == 0
    if service == 'write':
        return ok and r['service'] == 0xcd and after == [1, v, 3, 4]
    if service == 'read':
        return ok and r['service'] == 0xcc and r['data'] == [0xc3, 0] + ref.le(2, 2) and after == [1, 2, 3, 4]
    return ok and r['service'] == 0x81


CONFIGS = {
    'none': ('None', [], []),
    'simple': ('False', [], []),
    'one': ('[seg(cp, cl, False)]', ['cp', 'cl'], ['1 <= cp <= 0xFFFF and 0 <= cl <= 255']),
    'oneadr': ('[seg(cp, cl, True)]', ['cp', 'cl'], ['1 <= cp <= 0xFFFF and 0 <= cl <= 3']),
    'two': ('[seg(cp, cl, False), seg(2, 7, False)]', ['cp', 'cl'], ['1 <= cp <= 0xFFFF and 0 <= cl <= 255']),
}
REQS = {
    'absent': ('None', [], []),
    'empty': ('[]', [], []),
    'one': ('[seg(rp, rl, False)]', ['rp', 'rl'], ['1 <= rp <= 0xFFFF and 0 <= rl <= 255']),
    'oneadr': ('[seg(rp, rl, True)]', ['rp', 'rl'], ['1 <= rp <= 0xFFFF and 0 <= rl <= 3']),
    'two': ('[seg(rp, rl, False), seg(2, rm, False)]', ['rp', 'rl', 'rm'], ['1 <= rp <= 0xFFFF and 0 <= rl <= 255 and 0 <= rm <= 255']),
    'onestr': ("[seg(rp, rl, 'str')]", ['rp', 'rl'], ['1 <= rp <= 2 and 0 <= rl <= 2']),
}
QUICK = {('none', 'one', 'write'), ('simple', 'absent', 'read'), ('simple', 'empty', 'write'), ('simple', 'one', 'write'), ('one', 'one', 'write'),
         ('one', 'absent', 'read'), ('one', 'two', 'gaa'), ('oneadr', 'oneadr', 'write'), ('two', 'two', 'write'), ('one', 'onestr', 'write')} - {('oneadr', 'oneadr', 'write')}
for cn, (cexpr, cparams, cpre) in CONFIGS.items():
    for rn, (rexpr, rparams, rpre) in REQS.items():
        for service in ('read', 'write', 'gaa'):
            define(globals(), 'C15', 'route_%s_vs_%s_%s' % (cn, rn, service), cparams + rparams + ['v'],
                   "return do_route(%s, %s, %r, v)" % (cexpr, rexpr, service), cpre + rpre + ['-32768 <= v <= 32767'],
                   tier='quick' if (cn, rn, service) in QUICK else 'thorough', timeout=3000, path_timeout=120, drives=DRIVES,
                   symbolic=['configured ports 1..65535 / links 0..255 (address links: one of 4 addresses)', 'request ports/links likewise', 'v: written value'],
                   bounds='personality %s x request route path %s x service %s: accepted iff (no configuration) or (request has no route path) or '
                          '(request route == configured route, in port, link, length and link kind); refused => error status and the tag untouched' % (cn, rn, service),
                   outside='route paths longer than 2 segments; forwarding to remote devices (UCMM.route table)')


# ---- the personality as main() establishes it: a UCMM subclass carrying route_path, constructed by logix.setup ---------------------------------
class UCMM_simple(ucmm.UCMM):
    route_path = False


class UCMM_one(ucmm.UCMM):
    route_path = [{'port': 1, 'link': 0}]


class UCMM_any(ucmm.UCMM):
    route_path = None


# constructed ONCE at import (object construction under tracing costs minutes): what UCMM.__init__ made of each class-level route_path
ESTABLISHED = []
for _cls in (UCMM_simple, UCMM_one, UCMM_any):
    sim.setup({'A': (parser.INT, 4)}, UCMM_class=_cls)
    _uc = logix.setup()
    assert type(_uc) is _cls
    ESTABLISHED.append(_uc.route_path)
TAGS = sim.setup({'A': (parser.INT, 4)})
UC = logix.setup()
INTENDED = [False, [{'port': 1, 'link': 0}], None]


def do_route_constructed(which, rp, rl, v):
    which = concretize(which, 3)
    return do_route(ESTABLISHED[which], [{'port': rp, 'link': rl}], 'write', v, intended=INTENDED[which])


define(globals(), 'C15', 'personality_established_by_construction', ['which', 'rp', 'rl', 'v'], "return do_route_constructed(which, rp, rl, v)",
       ['0 <= which <= 2 and 1 <= rp <= 0xFFFF and 0 <= rl <= 255 and -32768 <= v <= 32767'], timeout=3000, path_timeout=300,
       drives=DRIVES + ['cpppo.server.enip.ucmm.UCMM.__init__ (route_path from class attribute / [UCMM] Route Path configuration)', 'cpppo.server.enip.logix.setup'],
       symbolic=['which: simple (route_path False) / one hop 1/0 / unconfigured', 'rp, rl: request route port 1..65535, link 0..255', 'v'],
       bounds='the personality set the way main() sets it -- a UCMM subclass with a class-level route_path, constructed by logix.setup(UCMM_class=...) (CONCRETELY, at harness import; the route_path the constructor established is then installed): a routed write '
              'with any one-hop route path is refused by the simple device, accepted by the one-hop device iff it equals 1/0, accepted by the unconfigured device',
       outside='a [UCMM] Route Path entry in a configuration file (none present in the harness environment)')


# ---- textual route paths denote the segments they spell ---------------------------------------------------------------------------------------
def num(ds):
    s = ''
    for d in ds:
        s += chr(48 + d)
    return s


def val(ds):
    v = 0
    for d in ds:
        v = v * 10 + d
    return v


def do_text(form, p0, p1, l0, l1, q0, m0):
    p0, p1, l0, l1, q0, m0 = concretize(p0, 10), concretize(p1, 10), concretize(l0, 10), concretize(l1, 10), concretize(q0, 10), concretize(m0, 10)
    ps, ls = num([p0, p1]), num([l0, l1])
    P, Lk = val([p0, p1]), val([l0, l1])
    if form == 'pl':
        got = device.parse_route_path(ps + '/' + ls)
        exp = [{'port': P, 'link': Lk}]
    elif form == 'plpl':
        got = device.parse_route_path(ps + '/' + ls + '/' + num([q0]) + '/' + num([m0]))
        exp = [{'port': P, 'link': Lk}, {'port': q0, 'link': m0}]
    elif form == 'ip':
        adr = '10.' + num([l0]) + '.' + num([l1]) + '.' + num([m0])
        got = device.parse_route_path(ps + '/' + adr)
        exp = [{'port': P, 'link': adr}]
    elif form == 'jsonlist':
        got = device.parse_route_path('[{"port": %s, "link": %s}, "%s/%s"]' % (num([p0 + 1]) if False else str(P), str(Lk), num([q0]), num([m0])))
        exp = [{'port': P, 'link': Lk}, {'port': q0, 'link': m0}]
    elif form == 'jsondict':
        got = device.parse_route_path('{"port": %s, "link": "10.0.0.%s"}' % (str(P), num([m0])))
        exp = [{'port': P, 'link': '10.0.0.' + num([m0])}]
    elif form == 'portlink':
        got = [device.port_link(ps + '/' + ls)]
        exp = [{'port': P, 'link': Lk}]
    else:                                              # connection path: route path + trailing CIP path
        got = device.parse_connection_path(ps + '/' + ls + '/@' + num([q0]) + '/' + num([m0]))
        exp = [{'port': P, 'link': Lk}, {'class': q0}, {'instance': m0}]
    return [dict(g) for g in got] == exp


for form in ('pl', 'plpl', 'ip', 'jsonlist', 'jsondict', 'portlink', 'connection'):
    define(globals(), 'C15', 'text_%s' % form, ['p0', 'p1', 'l0', 'l1', 'q0', 'm0'], "return do_text(%r, p0, p1, l0, l1, q0, m0)" % form,
           ['0 <= p0 <= 1 and 0 <= p1 <= 9 and p0 + p1 >= 1 and 0 <= l0 <= 1 and 0 <= l1 <= 9 and 1 <= q0 <= 2 and 8 <= m0 <= 9'],
           tier='quick' if form in ('pl', 'plpl', 'ip', 'connection') else 'thorough', timeout=2400, path_timeout=60,
           drives=['cpppo.server.enip.device.parse_route_path', 'cpppo.server.enip.device.port_link', 'cpppo.server.enip.device.parse_connection_path'],
           bounds="textual route path form %r built from symbolic DIGITS (2-digit port incl. leading zero, 2-digit link, 1-digit second hop / "
                  "address octets): denotes exactly the spelled segments (int()/json realise the text: solver-enumerated)" % form,
           outside='longer numbers; IPv6 links')
