"""C16 -- dotdict behaves as a tree of nested mappings addressed by dotted paths (dotdict.py)."""
import copy

from vrt import glue
from vrt.ob import define, obligation, concretize
import cpppo

glue.activate(cpppo.dotdict)
dotdict = cpppo.dotdict

DRIVES = ['cpppo.dotdict.dotdict_base._resolve', 'cpppo.dotdict.dotdict_base.__getitem__', 'cpppo.dotdict.dotdict_base.__setitem__',
          'cpppo.dotdict.dotdict_base.__contains__', 'cpppo.dotdict.dotdict_base.__delitem__', 'cpppo.dotdict.dotdict_base.pop',
          'cpppo.dotdict.dotdict_base.setdefault', 'cpppo.dotdict.dotdict_base.get', 'cpppo.dotdict.dotdict_base.update',
          'cpppo.dotdict.dotdict_base.iteritems', 'cpppo.dotdict.dotdict_base.__copy__', 'cpppo.dotdict.dotdict_base.__deepcopy__']


# ---- reference semantics of a dotted path (written from the property statement) ----------------------------
class Bad(Exception):
    pass


def components(key):
    """'..' addresses the parent level: a run of k dots between names is a separator that also pops k-1 levels (popping
    above the root is ignored, so leading dots are ignored); a single trailing '.' has no name to address -> error."""
    stack = []
    i = 0
    n = len(key)
    pending = False            # a separator has been seen and a name must follow (or levels were popped)
    while i < n:
        if key[i] == '.':
            j = i
            while j < n and key[j] == '.':
                j += 1
            run = j - i
            for _ in range(run - 1):
                if stack:
                    stack.pop()
            if j == n and run == 1:
                raise Bad(key)                      # 'a.' : nothing follows the separator
            i = j
        else:
            j = i
            while j < n and key[j] != '.':
                j += 1
            stack.append(key[i:j])
            i = j
    if not stack:
        raise Bad(key)
    return stack


MISSING = object()


def stale_rest_form(key):
    """the region of the known finding C16-leading-dot: keys whose '..' reduction leaves '.' + ONE component ('.a', 'x...a')"""
    mine = key
    while '..' in mine:
        front, back = mine.split('..', 1)
        trunc = front[:max(0, front.rfind('.'))]
        mine = trunc + ('.' if (trunc and back) else '') + back
    return len(mine) > 1 and mine.startswith('.') and '.' not in mine[1:]


def model_get(tree, key):
    try:
        comps = components(key)
    except Bad:
        return MISSING
    node = tree
    for c in comps:
        if not isinstance(node, dict) or c not in node:
            return MISSING
        node = node[c]
    return node


def plain(x):
    if isinstance(x, dict):
        return {k: plain(v) for k, v in dict.items(x)}
    if isinstance(x, list):
        return [plain(v) for v in x]
    return x


TREE = {'a': {'a': 1, 'b': {'a': 2, 'b': 9}}, 'b': 3}


def do_lookup(key):
    d = dotdict(TREE)
    exp = model_get(TREE, key)
    try:
        got = d[key]
    except KeyError:
        got = MISSING
    inn = key in d
    g2 = d.get(key, MISSING)
    if exp is MISSING:
        return got is MISSING and not inn and g2 is MISSING
    return got is not MISSING and plain(got) == exp and inn and plain(g2) == exp


for n, tier in ((4, 'quick'), (6, 'thorough')):
    define(globals(), 'C16', 'lookup_path_upto%d' % n, [('key', 'str')], "return do_lookup(key)",
           ['1 <= len(key) <= %d and all(c in "ab." for c in key)' % n], tier=tier, timeout=2400, path_timeout=60, drives=DRIVES,
           bounds='every key of 1..%d characters over {a, b, .} (any depth, leading dots, relative ".." segments, runs of dots, trailing dots) '
                  'looked up in the tree %r by [], in and get: succeeds exactly when the tree contains the addressed path' % (n, TREE),
           outside='longer keys; other names; bracketed index segments (see history obligations)')

# ---- operation histories vs. a nested-dict model -----------------------------------------------------------------
KEYS = ['a', 'b', 'a.a', 'a.b', 'b.a', 'a.b.a', 'a.a.b', 'a.b..a', 'b..a.b', 'c.a', 'a.c', 'c']
RESERVED = ['keys', 'pop', 'update', 'get', 'a.items', '__x']


def model_set(tree, comps, v):
    node = tree
    for c in comps[:-1]:
        nxt = node.setdefault(c, {})
        if not isinstance(nxt, dict):
            raise KeyError(c)
        node = nxt
    node[comps[-1]] = copy.deepcopy(v)


def model_parent(tree, comps):
    node = tree
    for c in comps[:-1]:
        if not isinstance(node, dict) or c not in node:
            raise KeyError(c)
        node = node[c]
    if not isinstance(node, dict):
        raise KeyError(comps[-1])
    return node


def model_keys(tree, prefix=''):
    out = []
    for k, v in tree.items():
        if isinstance(v, dict) and v:
            out += model_keys(v, prefix + k + '.')
        else:
            out.append((prefix + k, v))
    return out


def step(d, m, op, key, v):
    """apply one operation to the dotdict d and the model m; returns False on any observable difference"""
    comps = components(key)
    op = op % 8
    if op == 0:                                             # set
        try:
            model_set(m, comps, v)
            exp = None
        except KeyError:
            exp = KeyError
        try:
            d[key] = v
            got = None
        except KeyError:
            got = KeyError
        return got is exp
    if op == 1:                                             # attribute-form set of a plain dict (becomes an addressable level)
        sub = {'x': v, 'y': {'z': v}}
        try:
            model_set(m, comps, sub)
            exp = None
        except KeyError:
            exp = KeyError
        try:
            d[key] = sub
            got = None
        except KeyError:
            got = KeyError
        return got is exp
    if op == 2:                                             # del: refused for a non-empty level
        try:
            p = model_parent(m, comps)
            if comps[-1] not in p:
                raise KeyError(key)
            if isinstance(p[comps[-1]], dict) and p[comps[-1]]:
                raise KeyError(key)
            del p[comps[-1]]
            exp = None
        except KeyError:
            exp = KeyError
        try:
            del d[key]
            got = None
        except (KeyError, TypeError):         # a path through a leaf: the statement fixes no exception type for a refused del
            got = KeyError
        return got is exp
    if op == 3:                                             # pop with default
        try:
            p = model_parent(m, comps)
            exp = p.pop(comps[-1], 'dflt')
        except KeyError:
            exp = KeyError
        try:
            got = plain(d.pop(key, 'dflt'))
        except KeyError:
            got = KeyError
        return got == exp if exp is not KeyError else got is KeyError
    if op == 4:                                             # setdefault
        cur = model_get(m, key)
        try:
            if cur is MISSING:
                model_set(m, comps, v)
                cur = v
            exp = cur
        except KeyError:
            exp = KeyError
        try:
            got = plain(d.setdefault(key, v))
        except KeyError:
            got = KeyError
        return got == exp if exp is not KeyError else got is KeyError
    if op == 5:                                             # update from a plain dict with a dotted key
        try:
            model_set(m, comps, v)
            exp = None
        except KeyError:
            exp = KeyError
        try:
            d.update({key: v})
            got = None
        except KeyError:
            got = KeyError
        return got is exp
    if op == 6:                                             # copies are structurally independent
        c1 = copy.copy(d)
        c2 = copy.deepcopy(d)
        before = plain(d)
        try:
            c1[key] = v
            c2[key] = [v]
        except KeyError:
            pass
        return plain(d) == before
    # op == 7: get / in
    exp = model_get(m, key)
    try:
        got = plain(d[key])
    except KeyError:
        got = MISSING
    return (got is MISSING) == (exp is MISSING) and (exp is MISSING or got == exp) and (key in d) == (exp is not MISSING)


def consistent(d, m):
    """tree equality, key iteration lists exactly the leaf paths, every listed key looks up to the listed value, membership
    agrees with lookup"""
    ok = plain(d) == m
    keys = list(d.keys())
    items = d.listitems()
    ok = ok and sorted(keys) == sorted(k for k, v in model_keys(m)) and [k for k, v in items] == keys
    for k, v in items:
        ok = ok and k in d and plain(d[k]) == plain(v) and plain(v) == model_get(m, k)
    return ok


def do_history(ops, nkeys, v):
    m = copy.deepcopy(TREE)
    d = dotdict(TREE)
    for o, k in ops:
        if not step(d, m, o, KEYS[k % nkeys], v):
            return False
        if not consistent(d, m):
            return False
    return True


OPS = 'set, set-plain-dict, del, pop, setdefault, update, copy, get/in'
for first in range(8):
    define(globals(), 'C16', 'history2_first_op%d' % first, ['k0', 'o1', 'k1', 'v'],
           "return do_history([(%d, k0), (o1, k1)], 12, v)" % first,
           ['0 <= k0 < 12 and 0 <= o1 < 8 and 0 <= k1 < 12 and -5 <= v <= 5'],
           timeout=1800, path_timeout=60, drives=DRIVES,
           symbolic=['o1: operation kind (%s); first op fixed to kind %d' % (OPS, first), 'k0,k1: keys chosen among %r' % KEYS, 'v: stored value'],
           bounds='every history of 2 operations (first = kind %d) over 12 dotted paths (depth <= 3, relative ".." forms, new and existing levels) '
                  'from the tree %r, compared with a nested-dict model after every step: tree equality, key iteration = leaf paths, every listed '
                  'key looks up to its value, membership == lookup, del of non-empty level refused, copies independent' % (first, TREE),
           outside='longer histories (3 operations over 6 keys in the thorough tier); keys are concrete per path: solver-steered exhaustive')
    define(globals(), 'C16', 'history3_first_op%d' % first, ['k0', 'o1', 'k1', 'o2', 'k2', 'v'],
           "return do_history([(%d, k0), (o1, k1), (o2, k2)], 6, v)" % first,
           ['0 <= k0 < 6 and 0 <= o1 < 8 and 0 <= k1 < 6 and 0 <= o2 < 8 and 0 <= k2 < 6 and -5 <= v <= 5'],
           tier='thorough', timeout=6000, path_timeout=60, drives=DRIVES,
           bounds='every history of 3 operations (first = kind %d) over the 6 paths %r' % (first, KEYS[:6]), outside='longer histories')


@obligation('C16', timeout=600, path_timeout=60, drives=DRIVES,
            bounds='reserved method names and dunder names are refused as keys at any level; indexed list-of-mappings elements are addressable '
                   'as name[i].leaf by [] / in / set, and listed by key iteration; which, i, v symbolic selectors', outside='out-of-range list indices (IndexError from both lookup and membership)')
def reserved_and_indexed(which: int, i: int, v: int) -> bool:
    """
    pre: 0 <= which < 6 and 0 <= i <= 2 and -9 <= v <= 9
    post: _
    """
    d = dotdict(TREE)
    bad = RESERVED[which]
    try:
        d[bad] = v
        return False
    except KeyError:
        pass
    ok = plain(d) == TREE
    d.l = [dotdict(a=10), dotdict(a=11), dotdict(b=dotdict(c=12))]
    key = 'l[%d].%s' % (i, 'a' if i < 2 else 'b.c')
    ok = ok and key in d and d[key] == 10 + i and key in list(d.keys())
    d[key] = v
    ok = ok and d[key] == v and d.l[i]['a' if i < 2 else 'b.c'] == v
    ok = ok and ('l[%d].zz' % i) not in d
    # a plain dict assigned through the index form becomes an addressable level too
    d['l[%d]' % i] = {'y': {'z': v}, 'w': 4}
    ok = ok and ('l[%d].y.z' % i) in d and d['l[%d].y.z' % i] == v and d['l[%d].w' % i] == 4
    ok = ok and ('l[%d].y.z' % i) in list(d.keys()) and ('l[%d].y..w' % i) in d
    return ok


# ---- index EXPRESSIONS naming peer values (`chan[a.b.c].v`, `chan[a.b-1].v`): the dots inside the brackets do not split the path -----------------
PEER = ['i', 'a.b', 'a.c.d', 'p.q.r.s']            # 0..3 dots inside the index expression


def do_peer_index(depth, i, v, arith):
    depth = concretize(depth, len(PEER))
    d = dotdict()
    d.chan = [dotdict(v=10), dotdict(v=11), dotdict(w=dotdict(x=12))]
    d[PEER[depth]] = i + (1 if arith else 0)
    expr = PEER[depth] + ('-1' if arith else '')
    leaf = 'v' if i < 2 else 'w.x'
    key = 'chan[%s].%s' % (expr, leaf)
    ok = key in d and d[key] == 10 + i and d.get(key) == 10 + i
    d[key] = v                                      # assignment through the same path reaches the same element
    ok = ok and d.chan[i][leaf] == v and d[key] == v
    ok = ok and ('chan[%s].zz' % expr) not in d
    return ok and ('chan[%d].%s' % (i, leaf)) in list(d.keys())


define(globals(), 'C16', 'indexed_by_peer_expression', ['depth', 'i', 'v', ('arith', 'bool')], "return do_peer_index(depth, i, v, arith)",
       ['0 <= depth <= 3 and 0 <= i <= 2 and -9 <= v <= 9'], timeout=900, path_timeout=60, drives=DRIVES,
       bounds='list-of-mappings element addressed by an index EXPRESSION that names a peer value through 0..3 dots (`chan[p.q.r.s].v`), optionally with '
              'arithmetic (`chan[a.b-1].v`): lookup / in / get / assignment reach element i (symbolic 0..2), key iteration lists it in literal form',
       outside='other expressions; nested brackets')
