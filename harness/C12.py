"""C12 -- client results do not depend on pipelining depth or request bundling; operation text denotes the operation."""
from vrt import glue, sim, cli, ref_cip as ref
from vrt.ob import define, concretize
import cpppo
from cpppo.server.enip import parser, device, logix, client, ucmm

glue.activate(cpppo.automata, cpppo.dotdict, parser, device, logix, ucmm, client)
TAGS = sim.setup({'A': (parser.INT, 10), 'B': (parser.DINT, 4)})
cli.install_stubs()

CLI_DRIVES = ['cpppo.server.enip.client.connector.__init__/register', 'cpppo.server.enip.client.connector.issue (size estimation, bundle flush, sender context)',
              'cpppo.server.enip.client.connector.collect', 'cpppo.server.enip.client.connector.harvest', 'cpppo.server.enip.client.connector.pipeline',
              'cpppo.server.enip.client.connector.synchronous', 'cpppo.server.enip.client.connector.operate', 'cpppo.server.enip.client.client.__next__',
              'cpppo.server.enip.client.await_response', 'cpppo.server.enip.client.enip_replies', 'cpppo.server.enip.client.client.unconnected_send',
              'cpppo.server.enip.logix.process (peer)']
STUBS = ['socket.create_connection -> in-process FakeSock wired to the real simulator', 'select.select -> FakeSock readiness', 'misc.timer -> counter',
         'random -> counter']

OPSETS = {
    'mixed': ["A[1-3]=7,8,9", "A[0-4]", "B[2-2]=(DINT)70000", "A[9-10]", "B[0-3]"],                  # A[9-10] is refused (beyond end)
    'reads': ["A[0-9]", "B[0-3]", "A[5]"],
    'attrs': ["A[0-0]=1", "@2/1/1", "@0x02/1/99", "A[0-1]"],                                          # get attribute single (one refused)
}


def run(opset, depth, multiple, fragment):
    sim.RANDOM.n = 1000
    sim.attribute('A').value[:] = [0] * 10
    sim.attribute('B').value[:] = [0] * 4
    c, w, s = cli.connect(tags=TAGS)
    with c:
        res = [(i, st, v if v is None or v is True else list(v)) for i, d, rq, rp, st, v in
               c.operate(client.parse_operations(OPSETS[opset], fragment=fragment), depth=depth, multiple=multiple, fragment=fragment, timeout=1)]
    return res, (list(sim.attribute('A').value), list(sim.attribute('B').value))


BASE = {}
for _o in OPSETS:
    for _f in (False, True):
        BASE[(_o, _f)] = run(_o, 0, 0, _f)
        assert len(BASE[(_o, _f)][0]) == len(OPSETS[_o]), BASE[(_o, _f)]


def do_independent(opset, fragment, depth, multiple):
    res, state = run(opset, depth, multiple, fragment)
    base, bstate = BASE[(opset, fragment)]
    ok = len(res) == len(OPSETS[opset])                               # exactly one result per operation
    ok = ok and [r[1:] for r in res] == [r[1:] for r in base]         # same statuses and values, in operation order
    return ok and state == bstate


DEPTH_SHARDS = [('depth0', 'depth == 0'), ('depth1to2', '1 <= depth <= 2'), ('depth3up', '3 <= depth')]
for opset in OPSETS:
    for fragment in (False, True):
      for shard, dpre in DEPTH_SHARDS:
        define(globals(), 'C12', 'independent_%s%s_%s' % (opset, '_fragment' if fragment else '', shard), ['depth', 'multiple'],
               "return do_independent(%r, %r, depth, multiple)" % (opset, fragment), [dpre + ' and 0 <= multiple'],
               tier='quick' if (opset, fragment) in (('reads', False),) else 'thorough',
               timeout=3000, path_timeout=600, drives=CLI_DRIVES, stubs=STUBS,
               symbolic=['depth: ANY pipelining depth with %s (the three shards cover every depth >= 0; unbounded integer)' % dpre, 'multiple: ANY Multiple Service Packet size limit >= 0 (unbounded integer)'],
               bounds='operation list %r (fragment=%r) through the real client over an in-process transport against the real simulator: for every depth '
                      'and every bundle size limit, one result per operation, in order, with the statuses and values of the synchronous un-bundled '
                      'run, and the same final tag state' % (OPSETS[opset], fragment), outside='other operation lists; real TCP scheduling')


# ---- bundling never mixes operations with different route / send paths ----------------------------------------------------------------------
def do_no_mix(multiple, depth, order):
    sim.RANDOM.n = 1000
    rp1, rp2 = [{'port': 1, 'link': 0}], [{'port': 2, 'link': 5}]
    sp2 = [{'class': 6}, {'instance': 1}]
    specs = [("A[0-1]", rp1), ("A[2]", rp1), ("B[0]", rp2), ("B[1-2]", rp2)]
    if order % 2:
        specs = [specs[0], specs[2], specs[1], specs[3]]
    ops = []
    for text, rp in specs:
        op, = client.parse_operations([text], route_path=rp, send_path=sp2 if rp is rp2 else None)
        ops.append(op)
    c, w, s = cli.connect(tags=TAGS)
    seen = []
    orig = w.feed

    def spy(data):
        seen.append(list(data))
        return orig(data)
    w.feed = spy
    with c:
        res = [(st, v) for i, d, rq, rp, st, v in c.operate(ops, depth=depth, multiple=multiple, timeout=1)]
    ok = len(res) == 4 and all(st == 0 for st, v in res)
    # every frame the peer received: its route path decides which tag its (bundled) members may address
    for fr in seen:
        e = ref.un_encap(fr)
        if e['command'] != 0x6f:
            continue
        items, _ = ref.un_cpf(e['payload'][6:])
        us = items[1][1]
        ok = ok and us[0] == 0x52
        plen = us[1] * 2
        size = ref.un_le(us[4 + plen:6 + plen])
        req = us[6 + plen:6 + plen + size]
        rest = us[6 + plen + size + (size % 2):]
        route = rest[2:]
        tag = 65 if route == [1, 0] else 66 if route == [2, 5] else None            # 'A' / 'B'
        ok = ok and tag is not None
        members = [req]
        if req[0] == 0x0a:
            n = ref.un_le(req[6:8])
            offs = [ref.un_le(req[8 + 2 * k:10 + 2 * k]) for k in range(n)]
            members = [req[6 + o:(6 + offs[k + 1]) if k + 1 < n else len(req)] for k, o in enumerate(offs)]
        for m in members:
            ok = ok and m[2] == 0x91 and m[4] == tag
    return ok


for _order, _depth in ((0, 0), (0, 1), (0, 2), (1, 0), (1, 1), (1, 2)):
  define(globals(), 'C12', 'bundles_never_mix_paths_order%d_depth%d' % (_order, _depth), ['multiple'], "return do_no_mix(multiple, %d, %d)" % (_depth, _order),
       ['0 <= multiple'], tier='quick' if _order else 'thorough', timeout=3000, path_timeout=600, drives=CLI_DRIVES, stubs=STUBS,
       bounds='4 reads (grouped / alternating) between two (route path, send path) pairs, for every bundle size limit (unbounded) at this depth: every frame the peer receives '
              '(decoded by the reference decoder) carries only members of operations that have that frame\'s route path', outside='')


# ---- textual operation descriptions ---------------------------------------------------------------------------------------------------------------
def num(ds):
    s = ''
    for d in ds:
        s += chr(48 + d)
    return s


def val(ds):
    v = 0
    for d in ds:
        v = v * 10 + d
    return v


HEX = '0123456789ABCDEFabcdef'
# digits each textual form actually spells, with the (small) ranges the solver enumerates them over
USED = {
    'index': {'d0': 9, 'd1': 9}, 'range': {'d0': 8, 'e0': 1, 'e1': 9}, 'count': {'d0': 9, 'd1': 9}, 'offset': {'d0': 8, 'e0': 1, 'e1': 2, 'd2': 3},
    'write': {'d0': 8, 'e0': 1, 'e1': 2, 'd2': 3}, 'write_cast': {'d0': 3, 'd1': 1, 'e0': 1, 'e1': 2, 'd2': 3},
    'numeric': {'h0': 21, 'h1': 1, 'd0': 1, 'd1': 1, 'e0': 1, 'd2': 1}, 'numeric_json': {'d0': 1, 'd1': 1, 'e1': 9, 'd2': 1},
    'write_frag_offset': {'d0': 4, 'd1': 2, 'e0': 1, 'e1': 2}, 'write_cast_dot': {'d0': 4, 'e0': 2, 'e1': 5},
}


def do_text(form, d0, d1, d2, e0, e1, h0, h1):
    # the digits are solver variables but each path works on CONCRETE text (csv.reader / int() are C code): solver-enumerated
    used = USED[form]
    d0, d1, d2, e0, e1 = [concretize(x, 10) if n in used else 1 for n, x in (('d0', d0), ('d1', d1), ('d2', d2), ('e0', e0), ('e1', e1))]
    h0, h1 = [concretize(x, 22) if n in used else 10 for n, x in (('h0', h0), ('h1', h1))]
    A, Bv, Cv = val([d0, d1]), val([e0, e1]), d2
    fragment = False
    if form == 'index':
        text, exp = 'Tag[%s]' % num([d0, d1]), dict(path=[{'symbolic': 'Tag'}, {'element': A}])
    elif form == 'range':
        text, exp = 'Tag[%s-%s]' % (num([d0]), num([e0, e1])), dict(path=[{'symbolic': 'Tag'}, {'element': d0}], elements=Bv + 1 - d0)
    elif form == 'count':
        text, exp = 'Tag*%s' % num([d0, d1]), dict(path=[{'symbolic': 'Tag'}], elements=A)
    elif form == 'offset':
        text, exp = 'Tag[%s-%s]+%s' % (num([d0]), num([e0, e1]), num([d2])), dict(path=[{'symbolic': 'Tag'}, {'element': d0}], elements=Bv + 1 - d0, offset=d2)
    elif form == 'write':
        text = 'Tag[%s-%s]=%s,%s' % (num([d0]), num([d0 + 1]), num([e0, e1]), num([d2]))
        exp = dict(path=[{'symbolic': 'Tag'}, {'element': d0}], elements=2, method='write', data=[Bv, d2], tag_type=parser.INT.tag_type)
    elif form == 'write_cast':
        text = 'Sub.Tag[%s] = (DINT) -%s' % (num([d0, d1]), num([e0, e1, d2]))
        exp = dict(path=[{'symbolic': 'Sub'}, {'symbolic': 'Tag'}, {'element': A}], elements=1, method='write', data=[-val([e0, e1, d2])], tag_type=parser.DINT.tag_type)
    elif form == 'write_cast_dot':              # values spelled with a '.', under an explicit (TYPE) cast / with none
        cast = ('(LREAL)', '(REAL)', '(SSTRING)', '', '(STRING) ')[d0 % 5]
        if 'STRING' in cast:
            text = 'Tag = %s"a%s.%sb"' % (cast, num([e0]), num([e1]))
            data = ['a%s.%sb' % (num([e0]), num([e1]))]
        else:
            text = 'Tag = %s%s.%s' % (cast, num([e0]), num([e1]))
            data = [e0 + e1 / 10.0]
        typ = (parser.LREAL, parser.REAL, parser.SSTRING, parser.REAL, parser.STRING)[d0 % 5]
        exp = dict(path=[{'symbolic': 'Tag'}], elements=1, method='write', data=data, tag_type=typ.tag_type)
    elif form == 'numeric':
        hx = HEX[h0 % 22] + HEX[h1 % 22]
        text = '@0x%s/%s/%s[%s]' % (hx, num([d0, d1]), num([e0]), num([d2]))
        exp = dict(path=[{'class': int(hx, 16)}, {'instance': A}, {'attribute': e0}, {'element': d2}])
    elif form == 'numeric_json':
        text = '@%s/{"connection":%s}/%s' % (num([d0, d1]), num([e1]), num([d2]))        # (JSON numbers carry no leading zero)
        exp = dict(path=[{'class': A}, {'connection': e1}, {'attribute': d2}])
    else:                                       # fragmented write with offset (element aligned)
        fragment = True
        text = 'Tag[0-%s]+%s=%s' % (num([4 + d0 % 5]), num([2 * (d1 % 3)]), num([e0, e1]))
        exp = dict(path=[{'symbolic': 'Tag'}, {'element': 0}], elements=5 + d0 % 5, method='write', data=[Bv], tag_type=parser.INT.tag_type,
                   offset=2 * (d1 % 3))
    try:
        op, = client.parse_operations([text], fragment=fragment)
    except Exception:
        return form in ('range', 'offset') and Bv < d0          # an empty/negative range is refused
    if form in ('range', 'offset') and Bv < d0:
        return False
    got = dict(op)
    got['path'] = [dict(s) for s in got['path']]
    return got == exp


for form in ('index', 'range', 'count', 'offset', 'write', 'write_cast', 'write_cast_dot', 'numeric', 'numeric_json', 'write_frag_offset'):
    define(globals(), 'C12', 'text_%s' % form, ['d0', 'd1', 'd2', 'e0', 'e1', 'h0', 'h1'], "return do_text(%r, d0, d1, d2, e0, e1, h0, h1)" % form,
           [" and ".join('0 <= %s <= %d' % (n, USED[form].get(n, 0)) for n in ('d0', 'd1', 'd2', 'e0', 'e1', 'h0', 'h1'))],
           tier='quick' if form in ('range', 'write', 'write_cast_dot', 'numeric', 'offset') else 'thorough', timeout=3000, path_timeout=60,
           drives=['cpppo.server.enip.client.parse_operations', 'cpppo.server.enip.device.parse_path_elements', 'cpppo.server.enip.device.parse_path_component',
                   'cpppo.server.enip.device.parse_int', 'cpppo.server.enip.client.CIP_TYPES validators'],
           bounds="operation text form %r spelled from symbolic decimal / hex DIGITS (leading zeros included): the parsed operation has exactly the "
                  "spelled path segments, element, count, offset, type and values (int() realises the text: solver-enumerated)" % form,
           outside='longer numbers; other REAL/STRING values than the one-digit.one-digit ones of write_cast_dot')


def do_format(c, i, a, e, cnt, symbolic):
    c, i, a, e = (0, 255, 65535)[c], (9, 10, 256)[i], (1, 100)[a], (0, 9, 255, 65536)[e]      # width / digit-count boundary values, chosen by selector
    segs = [{'symbolic': 'Tag'}, {'symbolic': 'Sub'}] if symbolic else [{'class': c}, {'instance': i}, {'attribute': a}]
    segs = segs + [{'element': e}]
    text = client.format_path(segs, count=cnt)
    back, elm, n = device.parse_path_elements(text)
    exp = [dict(s) for s in segs]
    return [dict(s) for s in back] == exp and elm == e and n == cnt


define(globals(), 'C12', 'format_path_roundtrip', ['c', 'i', 'a', 'e', 'cnt', ('symbolic', 'bool')], "return do_format(c, i, a, e, cnt, symbolic)",
       ['0 <= c <= 2 and 0 <= i <= 2 and 0 <= a <= 1 and 0 <= e <= 3 and 1 <= cnt <= 2'],
       timeout=3000, path_timeout=60, drives=['cpppo.server.enip.client.format_path', 'cpppo.server.enip.device.parse_path_elements'],
       bounds='format_path -> parse_path_elements for class/instance/attribute/element/count chosen by the solver among width and digit-count '
              'boundary values (%% formatting realises ints), symbolic and numeric forms', outside='other values (bounded: stated in DESIGN)')
