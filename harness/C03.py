"""C03 -- tags behave as typed arrays: one inductive step from an ARBITRARY tag state (server/enip/logix.py, device.py).

Pre-state: every element of the addressed tag is a solver variable over the tag type's full range (the
representation invariant of a tag: a list of fixed length of in-range values); neighbours hold symbolic values too.
One request of each kind is executed by the real Logix.request / Object.request and compared with a 10-line array
model.  Because the pre-state is arbitrary, request histories of any length follow by induction."""
from vrt import glue, sim
from vrt.ob import define
import cpppo
from cpppo.server.enip import parser, device, logix

glue.activate(cpppo.automata, cpppo.dotdict, parser, device, logix)

TYPES = [parser.SINT, parser.USINT, parser.INT, parser.UINT, parser.DINT, parser.UDINT, parser.LINT, parser.ULINT]
N = 4
SPEC = {}
for _k, _t in enumerate(TYPES):
    SPEC['A' + _t.__name__] = (_t, N, '@0x401/1/%d' % (_k + 1))       # several tags sharing one CIP instance
    SPEC['M' + _t.__name__] = (_t, N)                                 # auto-allocated in the Message Router
SPEC['NB'] = (parser.DINT, 2, '@0x401/1/30')                           # neighbour in the shared instance
SPEC['MB'] = (parser.INT, 2)                                           # neighbour in the Message Router
SPEC['SC'] = (parser.INT, 1)                                           # scalar tag
SPEC['BO'] = (parser.BOOL, N, '@0x401/1/31')
for _k in range(6):
    SPEC['X%d' % _k] = (parser.INT, 2)                                  # more than 10 auto-allocated tags in the Message Router
SPEC['YY'] = (parser.DINT, 3, '@0x402/7/12')                            # a high attribute number in another object
ALLTAGS = list(SPEC)
TAGS = sim.setup(SPEC)
LGX = device.lookup(2, 1)
OBJ = device.lookup(0x401, 1)

DRIVES = ['cpppo.server.enip.logix.Logix.request', 'cpppo.server.enip.logix.Logix.reply_elements',
          'cpppo.server.enip.logix.Logix.produce', 'cpppo.server.enip.device.Object.request',
          'cpppo.server.enip.device.Object.produce', 'cpppo.server.enip.device.Message_Router.route',
          'cpppo.server.enip.device.resolve', 'cpppo.server.enip.device.resolve_tag', 'cpppo.server.enip.device.lookup',
          'cpppo.server.enip.device.Attribute.__getitem__', 'cpppo.server.enip.device.Attribute.__setitem__',
          'cpppo.server.enip.device.Attribute._validate_key', 'cpppo.server.enip.device.Attribute.produce',
          'cpppo.server.enip.parser.typed_data.produce']


def address(tag, how, element):
    """request path for `tag`: by symbolic name or by its @class/instance/attribute address"""
    if how == 'sym':
        return sim.tagpath(tag, element)
    c, i, a = device.resolve_tag(tag)
    return sim.numpath(c, i, a, element)


def target(tag, how):
    """the object whose .request handles the path (Message Router routes; call it like the CM does)"""
    return LGX


def state(tag, vals, nb, mb):
    sim.attribute(tag).value[:] = vals
    sim.attribute('NB').value[:] = [nb, 5]
    sim.attribute('MB').value[:] = [mb, 6]


def others_unchanged(nb, mb):
    return list(sim.attribute('NB').value) == [nb, 5] and list(sim.attribute('MB').value) == [mb, 6]


def do_read(tag, kind, how, vals, idx, cnt, nb, mb):
    state(tag, vals, nb, mb)
    att = sim.attribute(tag)
    r = cpppo.dotdict()
    r.path = address(tag, how, idx)
    if kind == 'read_frag':
        r.read_frag = {'elements': cnt, 'offset': 0}
    else:
        r.read_tag = {'elements': cnt}
    LGX.request(r)
    d = r[kind]
    return (r.status == 0 and list(d.data) == list(vals[idx:idx + cnt]) and d.type == att.parser.tag_type
            and r.service == ((0x52 if kind == 'read_frag' else 0x4c) | 0x80)
            and list(att.value) == list(vals) and others_unchanged(nb, mb))


def do_write(tag, kind, how, vals, idx, new, nb, mb):
    state(tag, vals, nb, mb)
    att = sim.attribute(tag)
    w = cpppo.dotdict()
    w.path = address(tag, how, idx)
    w[kind] = {'elements': len(new), 'type': att.parser.tag_type, 'data': list(new)}
    if kind == 'write_frag':
        w[kind].offset = 0
    LGX.request(w)
    exp = list(vals[:idx]) + list(new) + list(vals[idx + len(new):])
    ok = w.status == 0 and list(att.value) == exp and len(att.value) == len(vals) and others_unchanged(nb, mb)
    # ... and a read through the OTHER addressing form returns the model
    r = cpppo.dotdict()
    r.path = address(tag, 'num' if how == 'sym' else 'sym', 0)
    r.read_tag = {'elements': len(vals)}
    LGX.request(r)
    return ok and r.status == 0 and list(r.read_tag.data) == exp and r.read_tag.type == att.parser.tag_type


def le_bytes(v, size):
    """reference little-endian two's complement encoding (independent of the library)"""
    v = v % (1 << (8 * size))
    return [(v >> (8 * i)) & 0xff for i in range(size)]


def do_get_single(tag, vals, nb, mb):
    state(tag, vals, nb, mb)
    att = sim.attribute(tag)
    size = att.parser.struct_calcsize
    c, i, a = device.resolve_tag(tag)
    r = cpppo.dotdict()
    r.path = sim.numpath(c, i, a)
    r.get_attribute_single = True
    LGX.request(r)
    exp = []
    for v in vals:
        exp += le_bytes(v, size)
    return (r.status == 0 and list(r.get_attribute_single.data) == exp and r.service == 0x8e
            and list(att.value) == list(vals) and others_unchanged(nb, mb))


def do_set_single(tag, vals, new, nb, mb, signed):
    state(tag, vals, nb, mb)
    att = sim.attribute(tag)
    size = att.parser.struct_calcsize
    c, i, a = device.resolve_tag(tag)
    data = []
    for v in new:
        data += le_bytes(v, size)
    w = cpppo.dotdict()
    w.path = sim.numpath(c, i, a)
    w.set_attribute_single = {'data': data}
    LGX.request(w)
    ok = w.status == 0 and w.service == 0x90 and list(att.value) == list(new) and others_unchanged(nb, mb)
    r = cpppo.dotdict()
    r.path = sim.tagpath(tag, 0)
    r.read_frag = {'elements': len(vals), 'offset': 0}
    LGX.request(r)
    return ok and r.status == 0 and list(r.read_frag.data) == list(new)


VS = ['v%d' % i for i in range(N)]


def rng(t, names):
    lo, hi = sim.RANGE[t.__name__]
    return " and ".join('%d <= %s <= %d' % (lo, n, hi) for n in names)


QUICK_READ = {('SINT', 'read_tag', 'sym'), ('UINT', 'read_frag', 'num'), ('DINT', 'read_frag', 'sym'),
              ('ULINT', 'read_tag', 'num')}
QUICK_WRITE = {('USINT', 'write_tag', 'num', 2), ('INT', 'write_frag', 'sym', 2), ('UDINT', 'write_tag', 'sym', 1),
               ('LINT', 'write_frag', 'num', 2)}
QUICK_GS = {'INT', 'UDINT'}

for _t in TYPES:
    tn = _t.__name__
    for _pre, _where in (('A', 'bound to @0x401/1/x (shared instance)'), ('M', 'auto-allocated in the Message Router')):
        tag = _pre + tn
        for kind in ('read_tag', 'read_frag'):
            for how in ('sym', 'num'):
                q = (tn, kind, how) in QUICK_READ and _pre == 'A' or (tn, kind, how) == ('INT', 'read_tag', 'sym') and _pre == 'M'
                define(globals(), 'C03', 'rd_%s_%s_%s' % (tag, kind, how), VS + ['idx', 'cnt', 'nb', 'mb'],
                       "return do_read(%r, %r, %r, [%s], idx, cnt, nb, mb)" % (tag, kind, how, ", ".join(VS)),
                       [rng(_t, VS), '0 <= idx and 1 <= cnt and idx + cnt <= %d' % N, '-2**31 <= nb < 2**31 and -2**15 <= mb < 2**15'],
                       tier='quick' if q else 'thorough', timeout=600, path_timeout=120, drives=DRIVES,
                       symbolic=['v0..v3: contents of %s (full %s range)' % (tag, tn), 'idx, cnt: element range', 'nb, mb: neighbour tags'],
                       bounds='%s[%d] %s; %s addressed by %s; every start index/count inside the tag' % (
                           tn, N, _where, kind, 'symbolic name' if how == 'sym' else '@class/instance/attribute'),
                       outside='tags longer than %d elements' % N)
        for kind in ('write_tag', 'write_frag'):
            for how in ('sym', 'num'):
                for k in (1, 2):
                    ws = ['w%d' % i for i in range(k)]
                    q = (tn, kind, how, k) in QUICK_WRITE and _pre == 'A' or (tn, kind, how, k) == ('DINT', 'write_tag', 'sym', 2) and _pre == 'M'
                    define(globals(), 'C03', 'wr_%s_%s_%s_%d' % (tag, kind, how, k), VS + ws + ['idx', 'nb', 'mb'],
                           "return do_write(%r, %r, %r, [%s], idx, [%s], nb, mb)" % (tag, kind, how, ", ".join(VS), ", ".join(ws)),
                           [rng(_t, VS + ws), '0 <= idx and idx + %d <= %d' % (k, N), '-2**31 <= nb < 2**31 and -2**15 <= mb < 2**15'],
                           tier='quick' if q else 'thorough', timeout=600, path_timeout=120, drives=DRIVES,
                           symbolic=['v0..v3: prior contents', 'w*: written values (full %s range)' % tn, 'idx', 'nb, mb: neighbours'],
                           bounds='%s[%d] %s; %s of %d element(s) by %s at every start index; then whole-tag Read Tag through the '
                                  'other addressing form' % (tn, N, _where, kind, k, 'name' if how == 'sym' else '@c/i/a'),
                           outside='writes of more than 2 elements')
    if tn in ('LINT', 'ULINT'):
        continue            # 64-bit byte<->integer conversions: z3 does not close them (same limit as C01 scalar_LINT_*); Read/Write Tag obligations cover 64-bit values
    define(globals(), 'C03', 'gas_A%s' % tn, VS + ['nb', 'mb'],
           "return do_get_single(%r, [%s], nb, mb)" % ('A' + tn, ", ".join(VS)),
           [rng(_t, VS), '-2**31 <= nb < 2**31 and -2**15 <= mb < 2**15'],
           tier='quick' if tn in QUICK_GS else 'thorough', timeout=600, path_timeout=120, drives=DRIVES,
           bounds='Get Attribute Single of %s[%d] at @0x401/1/x: reply bytes = little-endian encoding of every element' % (tn, N),
           outside='')
    WS = ['w%d' % i for i in range(N)]
    define(globals(), 'C03', 'sas_A%s' % tn, VS + WS + ['nb', 'mb'],
           "return do_set_single(%r, [%s], [%s], nb, mb, %r)" % ('A' + tn, ", ".join(VS), ", ".join(WS), tn[0] != 'U'),
           [rng(_t, VS + WS), '-2**31 <= nb < 2**31 and -2**15 <= mb < 2**15'],
           tier='quick' if tn in QUICK_GS else 'thorough', timeout=600, path_timeout=120, drives=DRIVES,
           bounds='Set Attribute Single of all %d elements of %s tag (bytes from reference LE encoder), then Read Tag Fragmented by name' % (N, tn),
           outside='')


# ---- configuration: every configured tag is its own array (distinct Attributes), whatever the number/order of tags ------------------------------
def do_distinct(t1, t2, v, w):
    """two tags chosen among ALL configured tags (16 auto-allocated in the Message Router, several sharing @0x401/1, one in @0x402/7):
    writing one never changes another; each keeps its own type and length"""
    n1, n2 = ALLTAGS[t1 % len(ALLTAGS)], ALLTAGS[t2 % len(ALLTAGS)]
    if n1 == n2 or n1 == 'BO' or n2 == 'BO':
        return True
    a1, a2 = sim.attribute(n1), sim.attribute(n2)
    if a1 is a2 or device.resolve_tag(n1) == device.resolve_tag(n2):
        return False
    if a1.scalar or a2.scalar:
        return True
    lo, hi = sim.RANGE[a1.parser.__class__.__name__]
    v = lo + v % (hi - lo + 1)
    a2.value[:] = [3] * len(a2)
    w_ = cpppo.dotdict()
    w_.path = sim.tagpath(n1, 0)
    w_.write_tag = {'type': a1.parser.tag_type, 'data': [v]}
    LGX.request(w_)
    r = cpppo.dotdict()
    r.path = sim.tagpath(n2, 0)
    r.read_tag = {'elements': len(a2)}
    LGX.request(r)
    return (w_.status == 0 and a1.value[0] == v and r.status == 0 and list(r.read_tag.data) == [3] * len(a2)
            and r.read_tag.type == SPEC[n2][0].tag_type and len(a2) == SPEC[n2][1] and len(a1) == SPEC[n1][1])


define(globals(), 'C03', 'configured_tags_are_distinct_arrays', ['t1', 't2', 'v', 'w'], "return do_distinct(t1, t2, v, w)",
       ['0 <= t1 and 0 <= t2 and 0 <= v and 0 <= w <= 0'], timeout=1800, path_timeout=120, drives=DRIVES + ['cpppo.server.enip.logix.setup', 'cpppo.server.enip.logix.setup_tag',
                                                                                                       'cpppo.server.enip.device.redirect_tag'],
       symbolic=['t1, t2: any two of the %d configured tags' % (len(SPEC)), 'v: written value (mapped into the tag type range)'],
       bounds='configuration of %d tags created by the real logix.setup (16 auto-allocated in the Message Router incl. attribute numbers >= 10, 9 sharing '
              'instance @0x401/1, one at @0x402/7/12): every pair of distinct tags resolves to distinct Attributes, a write to one leaves the other\'s '
              'values, type and length untouched' % len(SPEC), outside='other configurations')
