"""C08 -- malformed or hostile input cannot hang, crash or corrupt the simulator."""
from vrt import glue, sim, ref_cip as ref
from vrt.ob import define, concretize
import cpppo
from cpppo.server.enip import parser, device, logix, ucmm

glue.activate(cpppo.automata, cpppo.dotdict, parser, device, logix, ucmm)
TAGS = sim.setup({'A': (parser.INT, 4), 'B': (parser.DINT, 2, '@0x401/1/1')})
ucmm.UCMM.parser = parser.CIP()             # rebuilt after de-logging (unrec_CIP formats eagerly)
LGX = device.lookup(2, 1)
CM = device.lookup(6, 1)

AUT = ['cpppo.automata.state.run (no-progress crumbs)', 'cpppo.automata.state.transition', 'cpppo.automata.dfa_base.delegate (stasis, NonTerminal)',
       'cpppo.automata.state limit/ending enforcement']
FULL = AUT + ['cpppo.server.enip.logix.process', 'cpppo.server.enip.ucmm.UCMM.request', 'cpppo.server.enip.device.Connection_Manager.request',
              'cpppo.server.enip.device.Message_Router.request', 'cpppo.server.enip.logix.Logix.request', 'cpppo.server.enip.device.Object.request',
              'cpppo.server.enip.device.state_multiple_service.terminate']

MACH = {
    'enip_machine': parser.enip_machine(context='enip', terminal=True),
    'EPATH': parser.EPATH(terminal=True),
    'route_path': parser.route_path(terminal=True),
    'EPATH_single': parser.EPATH_single(terminal=True),
    'SSTRING': parser.SSTRING(terminal=True),
    'STRING': parser.STRING(terminal=True),
    'status': parser.status(terminal=True),
    'CPF': parser.CPF(terminal=True),
    'send_data': parser.send_data(terminal=True),
    'unconnected_send': parser.unconnected_send(terminal=True),
    'typed_data_STRING': parser.typed_data(tag_type=parser.STRING.tag_type, terminal=True),
    'typed_data_STRUCT': parser.typed_data(tag_type=parser.STRUCT.tag_type, terminal=True),
    'identity_object': parser.identity_object(terminal=True),
    'IFACEADDRS': parser.IFACEADDRS(terminal=True),
    'communications_service': parser.communications_service(terminal=True),
    'Logix_parser': logix.Logix.parser,
    'Connection_Manager_parser': device.Connection_Manager.parser,
}
STEP_BOUND = 400            # generator steps; measured maximum on the unchanged tree for <= 5 bytes is < 100


def hostile(name, bs):
    """any byte string: the parse terminates (bounded number of steps) in a terminal machine or with an exception derived from Exception"""
    m = MACH[name]
    data = cpppo.dotdict()
    src = cpppo.peekable(bs)
    steps = 0
    try:
        with m as mm:
            for _ in mm.run(source=src, data=data):
                steps += 1
                if steps > STEP_BOUND:
                    return False
    except Exception:
        pass
    ok = src.sent <= len(bs)
    lock = getattr(m, 'lock', None)
    return ok and (lock is None or not lock.locked())


for name in MACH:
    for n, tier in ((3, 'quick'), (5, 'thorough')):
        bs = ['b%d' % i for i in range(n)]
        define(globals(), 'C08', 'parse_any_%s_%d' % (name, n), ['n'] + bs,
               "return hostile(%r, [%s][:concretize(n, %d)])" % (name, ", ".join(bs), n + 1),
               ['0 <= n <= %d' % n, " and ".join('0 <= %s <= 255' % b for b in bs)],
               tier=tier if name not in ('IFACEADDRS', 'typed_data_STRUCT', 'EPATH_single', 'route_path') or n > 3 else 'thorough',
               timeout=2400, path_timeout=120, drives=AUT + ['cpppo.server.enip.parser.%s' % name],
               bounds='%s on EVERY byte string of length 0..%d: terminates within %d generator steps, in a terminal machine or with an exception '
                      'derived from Exception (what the per-connection handler catches); never consumes more than it was given; shared parser '
                      'lock released' % (name, n, STEP_BOUND), outside='longer inputs')


# ---- the request processor on hostile envelopes ----------------------------------------------------------------------------------------------
LOCKS = [('Object.parser', device.Object.parser), ('Connection_Manager.parser', device.Connection_Manager.parser), ('UCMM.parser', ucmm.UCMM.parser),
         ('Logix.parser', logix.Logix.parser)]


def alive():
    """after the hostile input: every shared parser lock is released and a fresh valid request from a new peer is answered correctly"""
    for nm, p in LOCKS:
        if p.lock.locked():
            return False
    if ucmm.UCMM.lock.locked() or logix.setup.lock.locked():
        return False
    # a fresh valid request (simple, un-routed Read Tag of the whole tag from another peer) through the whole stack
    req = ref.read_tag([{'symbolic': 'A'}], 4)
    frame = ref.encap(0x6f, 9, 0, [9] * 8, 0, ref.send_rr_data([(0, []), (0xb2, req)]))
    proceed, rpy, data = sim.process(frame, addr=('10.9.9.9', 999), tags=TAGS)
    e = ref.un_encap([x for x in rpy])
    items, _ = ref.un_cpf(e['payload'][6:])
    r = ref.un_reply(items[1][1])
    return proceed and e['status'] == 0 and r['status'] == 0 and r['data'] == [0xc3, 0] + ref.typed(0xc3, list(sim.attribute('A').value))


def attack(frame, may_write=None):
    """feed one hostile frame to the real request processor.  Tags may change only through a complete well-formed write
    (may_write = the state that write produces, if the frame still carries one)"""
    a0, b0 = [11, 12, 13, 14], [21, 22]
    sim.attribute('A').value[:] = a0
    sim.attribute('B').value[:] = b0
    try:
        data = cpppo.dotdict()
        src = cpppo.peekable(frame)
        with parser.enip_machine(context='enip', terminal=True) as m:
            for _ in m.run(path='request', source=src, data=data):
                pass
            framed = m.terminal
        if framed:
            logix.process(('10.6.6.6', 666), data=data, tags=TAGS)
    except Exception:
        pass                                    # closes that connection
    a1, b1 = list(sim.attribute('A').value), list(sim.attribute('B').value)
    ok = b1 == b0 and (a1 == a0 or (may_write is not None and a1 == may_write))
    ok = ok and len(a1) == 4
    return ok and alive()


def do_envelope(command, n, bs):
    payload = bs[:concretize(n, len(bs) + 1)]
    return attack(ref.encap(command, 5, 0, [4] * 8, 0, payload))


for command, nm in ((0x6f, 'SendRRData'), (0x70, 'SendUnitData'), (0x65, 'Register'), (0x04, 'ListServices'), (0x63, 'ListIdentity')):
    for n, tier in ((3, 'quick'), (5, 'thorough')):
        bs = ['b%d' % i for i in range(n)]
        define(globals(), 'C08', 'process_%s_payload_%d' % (nm, n), ['n'] + bs, "return do_envelope(%d, n, [%s])" % (command, ", ".join(bs)),
               ['0 <= n <= %d' % n, " and ".join('0 <= %s <= 255' % b for b in bs)], tier=tier if nm in ('SendRRData', 'Register', 'SendUnitData') or n > 3 else 'thorough',
               timeout=2400, path_timeout=300, drives=FULL,
               bounds='%s envelope with EVERY encapsulated payload of 0..%d bytes through the real logix.process: returns or raises an Exception subclass; '
                      'no tag changes; afterwards all shared parser locks are free and a fresh valid request from another peer is answered correctly' % (nm, n),
               outside='longer payloads')


def do_cip_payload(n, bs):
    """well-formed encapsulation + CPF + Unconnected Send around EVERY embedded request of 0..n bytes"""
    req = bs[:concretize(n, len(bs) + 1)]
    return attack(ref.encap(0x6f, 5, 0, [4] * 8, 0, ref.send_rr_data([(0, []), (0xb2, ref.unconnected_send(req, [{'port': 1, 'link': 0}]))])))


for n, tier in ((3, 'quick'), (4, 'thorough'), (5, 'thorough')):
    bs = ['b%d' % i for i in range(n)]
    define(globals(), 'C08', 'process_embedded_request_%d' % n, ['n'] + bs, "return do_cip_payload(n, [%s])" % ", ".join(bs),
           ['0 <= n <= %d' % n, " and ".join('0 <= %s <= 255' % b for b in bs)], tier=tier, timeout=3000, path_timeout=300, drives=FULL,
           bounds='valid frame/CPF/Unconnected Send around EVERY embedded CIP request of 0..%d bytes (all service codes, truncated paths, ...): same '
                  'assertions' % n, outside='longer embedded requests')


# ---- structure-aware mutation: valid frames with one byte replaced by an arbitrary value at every position -------------------------------------
def valid_frames():
    a = [{'symbolic': 'A'}]
    rr = [{'port': 1, 'link': 0}]

    def wrap(req, routed=True):
        body = ref.unconnected_send(req, rr) if routed else req
        return ref.encap(0x6f, 5, 0, [4] * 8, 0, ref.send_rr_data([(0, []), (0xb2, body)]))
    return {
        'read_tag': (wrap(ref.read_tag(a + [{'element': 1}], 2)), None, None),
        'read_frag': (wrap(ref.read_frag(a, 4, 0)), None, None),
        'get_attribute_single': (wrap(ref.get_attribute_single([{'class': 0x401}, {'instance': 1}, {'attribute': 1}])), None, None),
        'get_attributes_all_simple': (wrap(ref.get_attributes_all([{'class': 1}, {'instance': 1}]), routed=False), None, None),
        'multiple_reads': (wrap(ref.multiple([ref.read_tag(a, 1), ref.read_frag(a + [{'element': 2}], 2, 0)])), None, None),
        'register': (ref.encap(0x65, 0, 0, [4] * 8, 0, ref.register()), None, None),
        'list_identity': (ref.encap(0x63, 0, 0, [4] * 8, 0, []), None, None),
        # a write: only bytes OUTSIDE the embedded request are mutated (header, CPF, Unconnected Send wrapper, route path), so if
        # the frame is still accepted it carries the same write
        'write_tag_wrapper': (wrap(ref.write_tag(a + [{'element': 2}], 0xc3, [77])), [11, 12, 77, 14], len(ref.write_tag(a + [{'element': 2}], 0xc3, [77]))),
        'forward_open': (wrap(ref.forward_open(False, 5, 157, 0x11, 0x22, 0x33, 0x44, 0x55, 0, 1000, ref.ncp(500, True, 0, 2), 1000, ref.ncp(500, True, 0, 2), 0xa3,
                                               [{'port': 1, 'link': 0}, {'class': 2}, {'instance': 1}]), routed=False), None, None),
    }


FRAMES = valid_frames()


def mutable_positions(name):
    frame, may_write, reqlen = FRAMES[name]
    return len(frame) if reqlen is None else len(frame) - reqlen


def do_mutate(name, pos, b, lo=0, hi=None):
    frame, may_write, reqlen = FRAMES[name]
    frame = list(frame)
    hi = mutable_positions(name) if hi is None else hi
    pos = lo + concretize(pos, hi - lo)
    if reqlen is None:
        pass
    else:
        # positions outside the embedded write request: [0, start) and [start+reqlen, len)
        start = 24 + 6 + 2 + 4 + 4 + 1 + 5 + 2 + 2           # encap + ifc/timeout + count + null item + item hdr + 0x52 + path + prio/ticks + size
        outside = len(frame) - reqlen
        if pos >= start:
            pos += reqlen
    frame[pos] = b
    return attack(frame, may_write)


MSH = 3           # byte positions per shard (one position costs ~8 execution paths of two full-stack requests each)
QUICK_MUT = {('read_tag', 0), ('read_tag', 54), ('read_tag', 57), ('write_tag_wrapper', 24), ('register', 0)}
for name in FRAMES:
    npos = mutable_positions(name)
    for lo in range(0, npos, MSH):
        hi = min(lo + MSH, npos)
        define(globals(), 'C08', 'mutate_%s_%03d' % (name, lo), ['pos', 'b'], "return do_mutate(%r, pos, b, %d, %d)" % (name, lo, hi), ['0 <= pos < %d and 0 <= b <= 255' % (hi - lo)],
               tier='quick' if (name, lo) in QUICK_MUT else 'thorough', timeout=3000, path_timeout=300, drives=FULL,
               symbolic=['pos: every byte position in [%d, %d) of the %d mutable positions of the frame (length, count, offset, size, service and path fields at every nesting level)' % (lo, hi, npos),
                         'b: the replacement value 0..255'],
               bounds='valid %s frame (%d bytes) with one byte of positions %d..%d replaced by every value: the processor returns or raises an Exception subclass, tags '
                      'change only through the (intact) write it carries, locks released, next request served; the shards of a frame cover every position' % (
                          name, len(FRAMES[name][0]), lo, hi - 1),
               outside='two simultaneous substitutions; insertions/deletions other than via length fields')


# ---- inconsistent length / count / offset fields inside a write request -------------------------------------------------------------------------
def do_write_fields(frag, idx, elements, offset, nvals, v):
    """a Write Tag [Fragmented] whose element count, byte offset and number of carried values are arbitrary (mutually inconsistent)"""
    a0 = [11, 12, 13, 14]
    segs = [{'symbolic': 'A'}, {'element': idx}]
    nvals = concretize(nvals, 7)
    vals = [v, v + 1, v + 2, v + 3, v + 4, v + 5][:nvals]
    if frag:
        req = ref.write_frag(segs, 0xc3, vals, elements, 2 * offset)
    else:
        req = ref.write_tag(segs, 0xc3, vals, elements=elements)
        offset = 0
    beg = idx + offset
    wellformed = nvals >= 1 and elements >= 1 and idx + elements <= 4 and beg + nvals <= idx + elements
    expect = a0[:beg] + vals + a0[beg + nvals:] if wellformed else None
    frame = ref.encap(0x6f, 5, 0, [4] * 8, 0, ref.send_rr_data([(0, []), (0xb2, ref.unconnected_send(req, [{'port': 1, 'link': 0}]))]))
    return attack(frame, expect) and (not wellformed or list(sim.attribute('A').value) == expect)


for frag in (False, True):
    for _idx in range(6):
        for _off in (range(4) if frag else (0,)):
            define(globals(), 'C08', 'write_%s_inconsistent_fields_at%d_off%d' % ('frag' if frag else 'tag', _idx, _off), ['elements', 'nvals', 'v'],
                   "return do_write_fields(%r, %d, elements, %d, nvals, v)" % (frag, _idx, _off),
                   ['0 <= elements <= 4 and 0 <= nvals <= 3 and -100 <= v <= 100'],
                   tier='quick' if (frag, _idx, _off) in ((False, 1, 0), (True, 0, 0), (True, 1, 1)) else 'thorough', timeout=3000, path_timeout=300, drives=FULL,
                   symbolic=['elements: declared element count 0..4', 'nvals: number of values actually carried 0..3', 'v'],
                   bounds='reference-encoded Write Tag%s to the INT[4] tag at start index %d, declared element offset %d, with EVERY combination of declared count and carried '
                          'values: the tag changes only if the request is a complete well-formed write (then exactly the addressed elements), its length never changes, '
                          'no other tag changes, next request served' % (' Fragmented' if frag else '', _idx, _off), outside='')


# ---- the UDP service: one thread/parser serves every peer, so nothing of one datagram may reach the next peer's -------------------------------------
from vrt import srv           # noqa: E402
from cpppo.server import network   # noqa: E402
from cpppo.server.enip import main as enip_main   # noqa: E402

glue.delog_all(enip_main)
srv.install_stubs()
HOSTILE, VICTIM = ('10.6.6.6', 666), ('10.9.9.9', 999)
LIST_SERVICES = ref.encap(0x04, 0, 0, [3] * 8, 0, [])
LIST_IDENTITY = ref.encap(0x63, 0, 0, [9] * 8, 0, [])
UDP_DRIVES = ['cpppo.server.enip.main.enip_srv_udp', 'cpppo.server.enip.main.stats_for'] + FULL


def _udp(datagrams):
    sent, calls = srv.serve_udp([(bytes(bytearray(d)), a) for d, a in datagrams], tags=TAGS)
    return [([x for x in r], a) for r, a in sent]


UDP_BASE = _udp([(LIST_IDENTITY, VICTIM)])
assert len(UDP_BASE) == 1 and UDP_BASE[0][1] == VICTIM and ref.un_encap(UDP_BASE[0][0])['command'] == 0x63
UDP_BASE_LS = _udp([(LIST_SERVICES, HOSTILE)])
assert len(UDP_BASE_LS) == 1


def do_udp_trailing(n, ts):
    """a complete valid frame followed by 1..len(ts) stray bytes in the SAME datagram, then another peer's valid request"""
    n = 1 + concretize(n, len(ts))
    got = _udp([(LIST_SERVICES + ts[:n], HOSTILE), (LIST_IDENTITY, VICTIM)])
    mine = [r for r, a in got if a == VICTIM]
    others = [r for r, a in got if a != VICTIM]
    # the victim gets exactly the reply it gets when alone; the hostile peer at most its own List Services reply
    return mine == [UDP_BASE[0][0]] and (others == [] or others == [UDP_BASE_LS[0][0]])


define(globals(), 'C08', 'udp_trailing_bytes_do_not_leak', ['n', 't0', 't1', 't2'], "return do_udp_trailing(n, [t0, t1, t2])",
       ['0 <= n <= 2 and 0 <= t0 <= 255 and 0 <= t1 <= 255 and 0 <= t2 <= 255'], timeout=2400, path_timeout=300, drives=UDP_DRIVES,
       symbolic=['n: 1..3 stray bytes after the frame', 't0..t2: their values'],
       bounds='real main.enip_srv_udp (scripted recvfrom): a datagram holding a complete List Services frame plus 1..3 arbitrary trailing bytes from one peer, then a '
              'List Identity datagram from another peer: the second peer receives exactly the reply it receives when alone; the first at most its own reply',
       outside='more than 3 stray bytes; more than two peers')


def do_udp_garbage(n, bs):
    """an arbitrary (short) datagram, then another peer's valid request"""
    n = concretize(n, len(bs) + 1)
    got = _udp([(bs[:n], HOSTILE), (LIST_IDENTITY, VICTIM)])
    mine = [r for r, a in got if a == VICTIM]
    return mine == [UDP_BASE[0][0]]


for _n, _tier in ((3, 'quick'), (5, 'thorough')):
    _bs = ['b%d' % i for i in range(_n)]
    define(globals(), 'C08', 'udp_garbage_then_valid_%d' % _n, ['n'] + _bs, "return do_udp_garbage(n, [%s])" % ", ".join(_bs),
           ['0 <= n <= %d' % _n, " and ".join('0 <= %s <= 255' % b for b in _bs)], tier=_tier, timeout=2400, path_timeout=300, drives=UDP_DRIVES,
           bounds='real main.enip_srv_udp: EVERY datagram of 0..%d bytes from one peer (a truncated header), then a List Identity datagram from another peer: the second '
                  'peer receives exactly the reply it receives when alone' % _n, outside='longer datagrams (the TCP obligations cover longer hostile frames)')
