"""C13 -- under any connection fault the client never pairs a reply with the wrong request, never reports success for an
incompletely received reply, and never silently returns fewer results than operations."""
from vrt import glue, sim, cli
from vrt.ob import define, concretize
import cpppo
from cpppo.server.enip import parser, device, logix, client, ucmm, get_attribute

glue.activate(cpppo.automata, cpppo.dotdict, parser, device, logix, ucmm, client, get_attribute)
TAGS = sim.setup({'A': (parser.INT, 6), 'B': (parser.DINT, 2)})
cli.install_stubs()
get_attribute.timer = cpppo.misc.timer

DRIVES = ['cpppo.server.enip.client.client.__next__ (EOF between frames / inside a frame)', 'cpppo.server.enip.client.client.__exit__', 'cpppo.server.enip.client.await_response',
          'cpppo.server.enip.client.connector.collect', 'cpppo.server.enip.client.connector.harvest', 'cpppo.server.enip.client.connector.pipeline',
          'cpppo.server.enip.client.connector.synchronous', 'cpppo.server.enip.client.connector.operate', 'cpppo.server.enip.client.connector.process',
          'cpppo.server.enip.client.connector.__init__', 'cpppo.server.enip.logix.process (peer)']
STUBS = ['socket.create_connection -> in-process FakeSock wired to the real simulator, with a byte-offset cut then EOF', 'select.select -> FakeSock readiness',
         'misc.timer -> counter', 'random -> counter']
OPS = ["A[1-2]=7,8", "A[0-3]", "B[0-1]", "A[5-6]"]         # the last one is refused by the simulator (beyond the end)
OPS2 = ["A[1-2]=7,8", "A[0-3]"]                               # the short exchange used by the quick tier (tracing a whole exchange costs ~5 s per operation)


def exchange(depth, multiple, cut=None, ccut=None, api='operate', drop=None, ops=None):
    """-> (results yielded before the stream ended, exception raised?, reply frame end offsets, bytes the peer produced)"""
    sim.RANDOM.n = 1000
    sim.attribute('A').value[:] = [1, 2, 3, 4, 5, 6]
    sim.attribute('B').value[:] = [11, 12]
    got = []
    raised = False
    wire = None
    try:
        c, wire, sock = cli.connect(cut=cut, ccut=ccut, drop=drop, tags=TAGS)
        with c:
            if api == 'process':
                failures, values = c.process(client.parse_operations(ops or OPS), depth=depth, multiple=multiple, timeout=1)
                got = [(None, v if v is None or v is True else list(v)) for v in values]
            else:
                for i, d, rq, rp, st, v in c.operate(client.parse_operations(ops or OPS), depth=depth, multiple=multiple, timeout=1):
                    got.append((st, v if v is None or v is True else list(v)))
    except Exception:
        raised = True
    return got, raised, wire


CONFIGS = [(0, 0), (1, 0), (3, 0), (2, 200), (0, 500)]
QCONFIGS = [(0, 0, 'q'), (1, 0, 'q'), (2, 200, 'q')]
OPSOF = {}
for _c in CONFIGS:
    OPSOF[_c] = OPS
for _c in QCONFIGS:
    OPSOF[_c] = OPS2
BASE = {}
for _cfg in CONFIGS + QCONFIGS:
    g, r, w = exchange(_cfg[0], _cfg[1], ops=OPSOF[_cfg])
    assert not r and len(g) == len(OPSOF[_cfg]), (g, r)
    # reply stream layout: frame end offsets (register reply first), and how many operation results each frame completes
    ends, at = [], 0
    out = list(w.out)
    while at < len(out):
        ln = out[at + 2] + 256 * out[at + 3]
        at += 24 + ln
        ends.append(at)
    BASE[_cfg] = (g, ends, len(out), w.received)
PROC = {True: exchange(2, 0, api='process', ops=OPS2)[0], False: exchange(2, 0, api='process')[0]}


def results_inside(cfg, cut):
    """number of operation results whose reply frame is wholly inside the first `cut` bytes of the reply stream"""
    g, ends, total, sent = BASE[cfg]
    frames = sum(1 for e in ends[1:] if e <= cut)            # complete reply frames after the Register reply
    if cfg[1] == 0:
        return frames                                        # one reply frame per operation
    # bundled: count members per frame from the fault-free layout
    return MEMBERS[cfg][frames]


MEMBERS = {}
for _cfg in CONFIGS + QCONFIGS:
    if _cfg[1]:
        # members per reply frame: parse the Multiple Service Packet reply count of each frame in the fault-free stream
        g, r, w = exchange(_cfg[0], _cfg[1], ops=OPSOF[_cfg])
        out = list(w.out)
        counts, at = [0], 0
        first = True
        while at < len(out):
            ln = out[at + 2] + 256 * out[at + 3]
            body = out[at + 24:at + 24 + ln]
            at += 24 + ln
            if first:
                first = False
                continue
            req = body[6 + 2 + 4 + 4:]
            n = (req[4] + 256 * req[5]) if req[0] == 0x8a else 1
            counts.append(counts[-1] + n)
        MEMBERS[_cfg] = counts


def do_reply_cut(cfg, cut, api, lo=0, hi=None):
    base, ends, total, sent = BASE[cfg]
    hi = total + 1 if hi is None else min(hi, total + 1)
    cut = lo + concretize(cut, hi - lo)          # concrete per path: the byte stream the client parses stays concrete
    ops = OPSOF[cfg]
    got, raised, wire = exchange(cfg[0], cfg[1], cut=cut, api=api, ops=ops)
    ref = base if api == 'operate' else PROC[ops is OPS2]
    k = len(got)
    avail = results_inside(cfg, cut)
    ok = got == ref[:k] if api == 'operate' else (k in (0, len(ref)) and got == ref[:k])   # only results correct for their own request
    ok = ok and k <= avail                                    # never a result for a reply that was not completely received
    if cut >= total:
        return ok and k == len(ops) and not raised
    return ok and (raised or k == len(ops))                   # never silently fewer results than operations


SH = 8           # offsets per shard (one traced exchange costs ~20 CPU s)
for cfg in CONFIGS + QCONFIGS:
    for api in ('operate', 'process'):
        total = BASE[cfg][2]
        for lo in range(0, total + 1, SH):
            hi = min(lo + SH, total + 1)
            quick = len(cfg) == 3 and ((api == 'operate' and ((lo // SH) % 4 == 0 if cfg[0] == 0 else (lo // SH) % 2 == 1)) or (api == 'process' and cfg[:2] == (1, 0) and lo == 24))
            define(globals(), 'C13', 'reply_cut_%sdepth%d_multiple%d_%s_%03d' % ('short_' if len(cfg) == 3 else '', cfg[0], cfg[1], api, lo), ['cut'],
                   "return do_reply_cut(%r, cut, %r, %d, %d)" % (cfg, api, lo, hi), ['0 <= cut < %d' % (hi - lo)],
                   tier='quick' if quick else 'thorough', timeout=3000, path_timeout=600, drives=DRIVES, stubs=STUBS,
                   symbolic=['cut: EVERY byte offset in [%d, %d) of the %d-byte server-to-client stream (Register reply + %d reply frames), followed by EOF' % (
                       lo, hi, total, len(BASE[cfg][1]) - 1)],
                   bounds='operations %r with depth=%d, multiple=%d via connector.%s: every yielded result equals the fault-free result at the same index, no '
                          'result for a reply not wholly received, and the result stream either ends with an exception or is complete (a reply lost entirely = '
                          'cut at a frame boundary); the shards of one configuration cover every offset' % (OPSOF[cfg], cfg[0], cfg[1], api),
                   outside='timeouts without EOF; real TCP; poll.run back-off (threads + sleeps)')


def do_request_cut(cfg, ccut, lo=0, hi=None):
    base, ends, total, sent = BASE[cfg]
    hi = sent + 1 if hi is None else min(hi, sent + 1)
    ccut = lo + concretize(ccut, hi - lo)
    ops = OPSOF[cfg]
    got, raised, wire = exchange(cfg[0], cfg[1], ccut=ccut, ops=ops)
    k = len(got)
    ok = got == base[:k]
    if ccut >= sent:
        return ok and k == len(ops) and not raised
    return ok and (raised or k == len(ops))


for cfg in CONFIGS + QCONFIGS[1:2]:
    sent = BASE[cfg][3]
    for lo in range(0, sent + 1, 12):
        hi = min(lo + 12, sent + 1)
        define(globals(), 'C13', 'request_cut_%sdepth%d_multiple%d_%03d' % ('short_' if len(cfg) == 3 else '', cfg[0], cfg[1], lo), ['ccut'], "return do_request_cut(%r, ccut, %d, %d)" % (cfg, lo, hi),
               ['0 <= ccut < %d' % (hi - lo)], tier='quick' if len(cfg) == 3 and lo in (36, 84) else 'thorough', timeout=3000, path_timeout=600, drives=DRIVES, stubs=STUBS,
               symbolic=['ccut: EVERY byte offset in [%d, %d) of the client-to-server stream after which the connection breaks (peer sees a partial frame, then closes)' % (lo, hi)],
               bounds='same exchange (depth=%d, multiple=%d) with the client-to-server stream (%d bytes) cut at every offset of the shard' % (cfg[0], cfg[1], sent), outside='')


# ---- proxy layer: after a failure the connection is discarded and the next use reconnects and returns correct data ---------------------------
def _proxy_stream_length():
    sim.RANDOM.n = 1000
    made = cli.prepare([dict()], tags=TAGS)
    via = get_attribute.proxy('fake', timeout=1, depth=1, identity_default='sim')
    with via:
        list(via.read(['A[0-3]', ('@2/1/1', 'INT')]))
    return len(made[0][0].out)


PROXY_TOTAL = _proxy_stream_length()


def do_proxy(cut, depth):
    sim.RANDOM.n = 1000
    sim.attribute('A').value[:] = [1, 2, 3, 4, 5, 6]
    cut = concretize(cut, PROXY_TOTAL)
    depth = concretize(depth, 3)                                     # a real fault: strictly inside the reply stream of this exchange
    cli.prepare([dict(cut=cut), dict()], tags=TAGS)
    via = get_attribute.proxy('fake', timeout=1, depth=depth, identity_default='sim')
    first = None
    failed = False
    try:
        with via:                                               # as poll.run uses it: __exit__ discards the gateway on any exception
            first = list(via.read(['A[0-3]', ('@2/1/1', 'INT')]))
    except Exception:
        failed = True
    ok = True
    if failed:
        ok = via.gateway is None                                # discarded
    else:
        ok = [list(v) for v in first] == [[1, 2, 3, 4], [1, 2, 3, 4, 5, 6]]  # only possible when both replies were wholly inside the cut
    with via:
        second = list(via.read(['A[0-3]', ('@2/1/1', 'INT')]))
    return ok and [list(v) for v in second] == [[1, 2, 3, 4], [1, 2, 3, 4, 5, 6]] and via.gateway is not None


define(globals(), 'C13', 'proxy_discards_and_reconnects', ['cut', 'depth'], "return do_proxy(28 + cut, depth)", ['0 <= cut < 40 and 0 <= depth <= 2'],
       tier='thorough', timeout=9000, path_timeout=600, drives=DRIVES + ['cpppo.server.enip.get_attribute.proxy.read', 'cpppo.server.enip.get_attribute.proxy.open_gateway',
                                                        'cpppo.server.enip.get_attribute.proxy.close_gateway', 'cpppo.server.enip.get_attribute.proxy.__exit__'],
       stubs=STUBS, bounds='proxy.read of two attribute ranges over a connection cut at every reply-stream offset: either correct values or an exception with '
                           'the gateway discarded; the next read (fresh connection) returns the correct data', outside='poll.run (threads, sleeps)')


# ---- the proxy's own List Identity handshake on a (re)connection is part of "a use": a fault there must also discard the connection -----------
def _proxy_handshake_length():
    sim.RANDOM.n = 1000
    made = cli.prepare([dict()], tags=TAGS)
    via = get_attribute.proxy('fake', timeout=1, depth=1)
    with via:
        pass
    return len(made[0][0].out)


PROXY_HANDSHAKE = _proxy_handshake_length()         # Register reply (28) + List Identity reply


def do_proxy_handshake(cut):
    sim.RANDOM.n = 1000
    sim.attribute('A').value[:] = [1, 2, 3, 4, 5, 6]
    cut = concretize(cut, PROXY_HANDSHAKE)
    cli.prepare([dict(cut=cut), dict()], tags=TAGS)
    via = get_attribute.proxy('fake', timeout=1, depth=1)               # no identity_default: List Identity on every (re)connection
    failed = False
    try:
        with via:
            list(via.read(['A[0-3]']))
    except Exception:
        failed = True
    ok = failed and via.gateway is None                                  # the cut lies inside the handshake: the use fails, connection discarded
    with via:
        second = list(via.read(['A[0-3]', ('@2/1/1', 'INT')]))
    return ok and [list(v) for v in second] == [[1, 2, 3, 4], [1, 2, 3, 4, 5, 6]] and via.gateway is not None


define(globals(), 'C13', 'proxy_handshake_fault_discards_quick', ['cut'], "return do_proxy_handshake(28 + 21 * cut)", ['0 <= cut < %d' % ((PROXY_HANDSHAKE - 28 + 20) // 21)],
       timeout=3000, path_timeout=600, drives=DRIVES + ['cpppo.server.enip.get_attribute.proxy.open_gateway', 'cpppo.server.enip.get_attribute.proxy.list_identity_details',
                                                        'cpppo.server.enip.get_attribute.proxy.close_gateway', 'cpppo.server.enip.get_attribute.proxy.__enter__'],
       stubs=STUBS, bounds='proxy without identity_default: the server-to-client stream of a new connection is cut at every 21st offset inside the List Identity reply '
                           '(right after the Register reply) that open_gateway requests: the use raises, the gateway is discarded, and the next use (fresh connection) '
                           'returns the correct data', outside='other offsets (thorough tier)')
define(globals(), 'C13', 'proxy_handshake_fault_discards', ['cut'], "return do_proxy_handshake(28 + cut)", ['0 <= cut < %d' % (PROXY_HANDSHAKE - 28)],
       tier='thorough', timeout=6000, path_timeout=600, drives=DRIVES + ['cpppo.server.enip.get_attribute.proxy.open_gateway', 'cpppo.server.enip.get_attribute.proxy.list_identity_details',
                                                        'cpppo.server.enip.get_attribute.proxy.close_gateway', 'cpppo.server.enip.get_attribute.proxy.__enter__'],
       stubs=STUBS, bounds='proxy without identity_default: the server-to-client stream of a new connection is cut at EVERY offset inside the List Identity reply '
                           '(%d bytes, right after the Register reply) that open_gateway requests: the use raises, the gateway is discarded, and the next use '
                           '(fresh connection) returns the correct data' % (PROXY_HANDSHAKE - 28), outside='faults in the Register reply (the connector is never constructed)')


# ---- a reply lost ENTIRELY while later replies still arrive (the dangerous case for mis-pairing) ---------------------------------------------
OPS6 = ["A[0]", "A[1]", "A[2]", "A[3]"]
DROP_CFG = [(2, 0), (3, 60), (2, 100), (0, 60), (1, 0)]       # (depth, multiple): singles, bundles of 2, bundles of 3, synchronous bundles
DROP_BASE = {}
for _cfg in DROP_CFG:
    g, r, w = exchange(_cfg[0], _cfg[1], ops=OPS6)
    assert not r and len(g) == 4, (g, r)
    DROP_BASE[_cfg] = (g, len(w.frames))


def do_drop(cfg, k):
    base, nframes = DROP_BASE[cfg]
    k = 1 + concretize(k, nframes - 1)                                   # one of the operation reply frames (frame 0 is the Register reply)
    got, raised, wire = exchange(cfg[0], cfg[1], drop=k, ops=OPS6)
    n = len(got)
    # only results that are correct for their own request; the stream must end with an error (a reply is missing), never silently short
    return got == base[:n] and n < 4 and raised


for cfg in DROP_CFG:
    define(globals(), 'C13', 'reply_lost_depth%d_multiple%d' % cfg, ['k'], "return do_drop(%r, k)" % (cfg,), ['0 <= k'],
           tier='quick' if cfg in ((2, 100),) else 'thorough', timeout=6000, path_timeout=600, drives=DRIVES, stubs=STUBS,
           symbolic=['k: which reply frame (of %d) is lost entirely; all later replies are delivered intact' % (DROP_BASE[cfg][1] - 1)],
           bounds='4 single-element reads with depth=%d, multiple=%d (so several requests / Multiple Service Packets are in flight): one whole reply frame is '
                  'lost and the following ones arrive: every yielded value belongs to its own request (no value of a later request is paired with an earlier '
                  'one) and the result stream ends with an error' % cfg, outside='loss of several replies')

define(globals(), 'C13', 'proxy_discards_and_reconnects_quick', ['cut'], "return do_proxy(28 + 9 * cut, 1)", ['0 <= cut < 6'],
       timeout=3000, path_timeout=600, drives=DRIVES + ['cpppo.server.enip.get_attribute.proxy.read', 'cpppo.server.enip.get_attribute.proxy.open_gateway',
                                                        'cpppo.server.enip.get_attribute.proxy.close_gateway', 'cpppo.server.enip.get_attribute.proxy.__exit__'],
       stubs=STUBS, bounds='proxy.read (depth 1) over a connection cut at every 9th reply-stream offset after the Register reply: either correct values or an exception '
                           'with the gateway discarded; the next read (fresh connection) returns the correct data', outside='other offsets (thorough tier)')
