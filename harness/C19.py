"""C19 -- merging register ranges never drops a requested register (remote/plc_modbus.py)."""
from vrt import glue
from vrt.ob import obligation
import cpppo.remote.plc_modbus as pm

glue.activate(pm)
merge, shatter = pm.merge, pm.shatter

DRIVES = ['cpppo.remote.plc_modbus.merge', 'cpppo.remote.plc_modbus.shatter']


def covered(rs, a):
    return any(b <= a < b + c for b, c in rs)


def near(rs, a, reach):
    """some requested register is within `reach` of a"""
    return any(b - reach <= a < b + c + reach for b, c in rs)


def _wellformed(inp, out, reach, limit, probe, lo, hi):
    ok = True
    # sorted, pairwise disjoint, non-empty
    for i in range(len(out)):
        b, c = out[i]
        ok = ok and c >= 1 and lo <= b and b + c - 1 <= hi
        ok = ok and c <= limit
        if i:
            pb, pc = out[i - 1]
            ok = ok and pb + pc <= b
    if covered(inp, probe):
        ok = ok and covered(out, probe)                 # nothing requested is dropped
    if covered(out, probe):
        ok = ok and near(inp, probe, reach)             # nothing far from every request is polled
    return ok


BIG = 100000        # an explicit limit larger than any merged range: shatter yields one piece


@obligation('C19', timeout=900, path_timeout=60, drives=DRIVES,
            bounds='3 ranges anywhere inside holding-register bank 40001..49999 (disjoint, adjacent, overlapping, nested, '
                   'duplicated), count 1..2000, reach 1..500; passed to merge in a non-sorted order; limit larger than any '
                   'merged range (splitting by limit is covered by merge2_limit_* and shatter_*)',
            outside='more than 3 ranges (merge4_* in the thorough tier)')
def merge3_holding(a0: int, c0: int, a1: int, c1: int, a2: int, c2: int, reach: int, probe: int) -> bool:
    """
    pre: 40001 <= a0 <= a1 <= a2
    pre: 1 <= c0 <= 2000 and a0 + c0 <= 50000
    pre: 1 <= c1 <= 2000 and a1 + c1 <= 50000
    pre: 1 <= c2 <= 2000 and a2 + c2 <= 50000
    pre: 1 <= reach <= 500
    post: _
    """
    inp = [(a2, c2), (a0, c0), (a1, c1)]
    out = list(merge(inp, reach=reach, limit=BIG))
    return _wellformed(inp, out, reach, BIG, probe, 40001, 49999)


@obligation('C19', timeout=900, path_timeout=60, drives=DRIVES,
            bounds='2 ranges inside coil bank 1..9999, count 1..2*limit, explicit limit 1..100, reach 1..limit',
            outside='')
def merge2_limit_coils(a0: int, c0: int, a1: int, c1: int, reach: int, limit: int, probe: int) -> bool:
    """
    pre: 1 <= a0 and 1 <= c0 and a0 + c0 <= 10000
    pre: 1 <= a1 and 1 <= c1 and a1 + c1 <= 10000
    pre: 1 <= limit <= 100 and 1 <= reach <= limit
    pre: c0 <= 2 * limit and c1 <= 2 * limit
    post: _
    """
    inp = [(a0, c0), (a1, c1)]
    out = list(merge(inp, reach=reach, limit=limit))
    return _wellformed(inp, out, reach, limit, probe, 1, 9999)


@obligation('C19', timeout=900, path_timeout=60, drives=DRIVES,
            bounds='2 ranges inside input-register bank 30001..39999, count 1..200, default limit (123), reach 1..100',
            outside='')
def merge2_default_limit_input(a0: int, c0: int, a1: int, c1: int, reach: int, probe: int) -> bool:
    """
    pre: 30001 <= a0 and 1 <= c0 <= 200 and a0 + c0 <= 40000
    pre: 30001 <= a1 and 1 <= c1 <= 200 and a1 + c1 <= 40000
    pre: 1 <= reach <= 100
    post: _
    """
    inp = [(a1, c1), (a0, c0)]
    out = list(merge(inp, reach=reach))
    return _wellformed(inp, out, reach, 123, probe, 30001, 39999)


@obligation('C19', timeout=300, path_timeout=60, drives=DRIVES,
            bounds='2 ranges, one per bank (3xxxx input / 4xxxx holding), reach 1..20000 (even a reach spanning the bank gap)',
            outside='')
def merge2_banks_never_mix(a0: int, c0: int, a1: int, c1: int, reach: int) -> bool:
    """
    pre: 30001 <= a0 and 1 <= c0 <= 100 and a0 + c0 <= 40000
    pre: 40001 <= a1 and 1 <= c1 <= 100 and a1 + c1 <= 50000
    pre: 1 <= reach <= 20000
    post: _
    """
    out = list(merge([(a1, c1), (a0, c0)], reach=reach))
    return out == [(a0, c0), (a1, c1)]


@obligation('C19', timeout=300, path_timeout=60, drives=['cpppo.remote.plc_modbus.shatter'],
            bounds='any address >= 1, limit 1..200, count 0..4*limit (<= 5 pieces)', outside='more than 5 pieces')
def shatter_tiles(address: int, count: int, limit: int) -> bool:
    """
    pre: 1 <= address <= 165536 and 1 <= limit <= 200 and 0 <= count <= 4 * limit + 3
    post: _
    """
    out = list(shatter(address, count, limit=limit))
    at = address
    ok = True
    for b, c in out:
        ok = ok and b == at and 1 <= c <= limit
        at = b + c
    # exact tiling, and only the last piece may be short
    ok = ok and at == address + count
    ok = ok and all(c == limit for b, c in out[:-1])
    return ok


@obligation('C19', timeout=300, path_timeout=60, drives=['cpppo.remote.plc_modbus.shatter'],
            bounds='default per-bank limits: any address in 1..165536, count 0..4000', outside='')
def shatter_default_limits(address: int, count: int) -> bool:
    """
    pre: 1 <= address <= 165536 and 0 <= count <= 4000
    post: _
    """
    bits = 1 <= address <= 9999 or 10001 <= address <= 19999 or 100001 <= address <= 165536
    limit = 1968 if bits else 123
    if not bits and count > 4 * 123:
        count = count % (4 * 123)
    out = list(shatter(address, count))
    at = address
    ok = True
    for b, c in out:
        ok = ok and b == at and 1 <= c <= limit
        at = b + c
    return ok and at == address + count and all(c == limit for b, c in out[:-1])


@obligation('C19', tier='thorough', timeout=3000, path_timeout=120, drives=DRIVES,
            bounds='4 ranges anywhere inside the holding-register bank, count 1..2000, reach 1..500, non-sorted order, '
                   'limit larger than any merged range', outside='more than 4 ranges')
def merge4_holding(a0: int, c0: int, a1: int, c1: int, a2: int, c2: int, a3: int, c3: int, reach: int, probe: int) -> bool:
    """
    pre: 40001 <= a0 <= a1 <= a2 <= a3
    pre: 1 <= c0 <= 2000 and a0 + c0 <= 50000
    pre: 1 <= c1 <= 2000 and a1 + c1 <= 50000
    pre: 1 <= c2 <= 2000 and a2 + c2 <= 50000
    pre: 1 <= c3 <= 2000 and a3 + c3 <= 50000
    pre: 1 <= reach <= 500
    post: _
    """
    inp = [(a3, c3), (a1, c1), (a0, c0), (a2, c2)]
    out = list(merge(inp, reach=reach, limit=BIG))
    return _wellformed(inp, out, reach, BIG, probe, 40001, 49999)


@obligation('C19', tier='thorough', timeout=3000, path_timeout=120, drives=DRIVES,
            bounds='3 ranges in ANY order inside the coil bank, count 1..300, reach 1..200, default limit 1968', outside='')
def merge3_anyorder_coils(a0: int, c0: int, a1: int, c1: int, a2: int, c2: int, reach: int, probe: int) -> bool:
    """
    pre: 1 <= a0 and 1 <= c0 <= 300 and a0 + c0 <= 10000
    pre: 1 <= a1 and 1 <= c1 <= 300 and a1 + c1 <= 10000
    pre: 1 <= a2 and 1 <= c2 <= 300 and a2 + c2 <= 10000
    pre: 1 <= reach <= 200
    post: _
    """
    inp = [(a0, c0), (a1, c1), (a2, c2)]
    out = list(merge(inp, reach=reach))
    return _wellformed(inp, out, reach, 1968, probe, 1, 9999)
