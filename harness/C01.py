"""C01 -- wire codec round trip over the EtherNet/IP CIP message grammar, per layer, vs. an independent encoder.

rt(v):  b = produce(v);  b == ref(v);  d = parse(b);  fields(d) == v, consumed == len(b), terminal;  produce(d) == b
"""
import itertools

from vrt import glue, sim, ref_cip as ref
from vrt.ob import define, obligation, concretize
import cpppo
from cpppo.server.enip import parser, device, logix

glue.activate(cpppo.automata, cpppo.dotdict, parser, device, logix)

AUTOMATA = ['cpppo.automata.state.run', 'cpppo.automata.state.transition', 'cpppo.automata.dfa_base.delegate',
            'cpppo.automata.state_struct.terminate', 'cpppo.automata.state_input.process']


def parse(machine, bs, path=None, data=None):
    data = cpppo.dotdict() if data is None else data
    src = cpppo.peekable(bs)
    with machine as m:
        for _ in m.run(source=src, data=data, path=path):
            pass
        term = m.terminal
    return data, src.sent, src.peek(), term


def blist(b):
    return [x for x in b]


def inr(names, lo=0, hi=255):
    """explicit conjunction (a generator inside all() makes CrossHair fork per element)"""
    return " and ".join("%d <= %s <= %d" % (lo, n, hi) for n in names)


# ---- scalars -------------------------------------------------------------------------------------------------
SCALARS = [(parser.USINT, 1, False, 'le'), (parser.SINT, 1, True, 'le'), (parser.UINT, 2, False, 'le'), (parser.INT, 2, True, 'le'),
           (parser.UDINT, 4, False, 'le'), (parser.DINT, 4, True, 'le'), (parser.ULINT, 8, False, 'le'), (parser.LINT, 8, True, 'le'),
           (parser.WORD, 2, False, 'le'), (parser.DWORD, 4, False, 'le'),
           (parser.UINT_network, 2, False, 'be'), (parser.INT_network, 2, True, 'be'),
           (parser.UDINT_network, 4, False, 'be'), (parser.DINT_network, 4, True, 'be')]
MACH = {c.__name__: c(terminal=True) for c, _, _, _ in SCALARS}


def rt_scalar(name, size, order, v):
    cls = getattr(parser, name)
    b = cls.produce(v)
    exp = ref.le(v, size) if order == 'le' else ref.be(v, size)
    d, sent, nxt, term = parse(MACH[name], b)
    return blist(b) == exp and d[name] == v and sent == size and nxt is None and term and blist(cls.produce(d[name])) == exp


def rt_scalar_produce(name, size, order, v):
    cls = getattr(parser, name)
    return blist(cls.produce(v)) == (ref.le(v, size) if order == 'le' else ref.be(v, size))


def rt_scalar_parse(name, size, signed, bs):
    """bytes -> value = sum b_i * 256^i (two's complement), consumed exactly `size`, and produce(value) gives the bytes back"""
    cls = getattr(parser, name)
    d, sent, nxt, term = parse(MACH[name], bs + [0x5A])
    val = ref.un_le(bs, signed)
    return d[name] == val and sent == size and nxt == 0x5A and term


for _c, _n, _s, _o in SCALARS:
    if _n == 8:
        lo, hi = (-(1 << 63), (1 << 63) - 1) if _s else (0, (1 << 64) - 1)
        define(globals(), 'C01', 'scalar_%s_produce' % _c.__name__, ['v'], "return rt_scalar_produce(%r, 8, 'le', v)" % _c.__name__,
               ['%d <= v <= %d' % (lo, hi)], timeout=120, path_timeout=30, drives=['cpppo.server.enip.parser.TYPE.produce'],
               bounds='%s.produce: every 64-bit value yields the reference little-endian bytes' % _c.__name__,
               outside='64-bit round trip is decided per direction (z3 cannot close int<->bitvector round trips at 64 bits); the '
                       'composition parse(produce(v)) == v follows from un_le(le(v)) == v')
        bs = ['b%d' % i for i in range(8)]
        define(globals(), 'C01', 'scalar_%s_parse' % _c.__name__, bs, "return rt_scalar_parse(%r, 8, %r, [%s])" % (_c.__name__, _s, ", ".join(bs)),
               [inr(bs)], timeout=120, path_timeout=30, drives=AUTOMATA,
               bounds='%s parser: every 8-byte string parses to sum b_i*256^i (two\'s complement), consuming exactly 8 bytes' % _c.__name__, outside='')
        continue
    lo, hi = (-(1 << (8 * _n - 1)), (1 << (8 * _n - 1)) - 1) if _s else (0, (1 << (8 * _n)) - 1)
    define(globals(), 'C01', 'scalar_' + _c.__name__, ['v'], "return rt_scalar(%r, %d, %r, v)" % (_c.__name__, _n, _o),
           ['%d <= v <= %d' % (lo, hi)], timeout=120, path_timeout=30,
           drives=['cpppo.server.enip.parser.TYPE.produce'] + AUTOMATA,
           bounds='%s: every value of its full %d-bit range' % (_c.__name__, 8 * _n), outside='')

BOOLM = parser.BOOL(terminal=True)


@obligation('C01', timeout=120, path_timeout=30, drives=['cpppo.server.enip.parser.BOOL.produce', 'cpppo.server.enip.parser.BOOL.terminate'] + AUTOMATA,
            bounds='BOOL: any byte 0..255 parses to bool(byte); produce yields 0x00 / 0xFF', outside='')
def scalar_BOOL(b: int) -> bool:
    """
    pre: 0 <= b <= 255
    post: _
    """
    d, sent, nxt, term = parse(BOOLM, [b])
    p = blist(parser.BOOL.produce(d.BOOL))
    d2, _, _, _ = parse(BOOLM, p)
    return d.BOOL == (b != 0) and type(d.BOOL) is bool and sent == 1 and term and p == ([0xFF] if b else [0]) and d2.BOOL == d.BOOL


FLOATS = [(parser.REAL, 4, [0, 0x80000000, 1, 0x007fffff, 0x00800000, 0x3f800000, 0x7f7fffff, 0x7f800000, 0xff800000, 0xc0490fdb]),
          (parser.LREAL, 8, [0, 1 << 63, 1, (1 << 52) - 1, 1 << 52, 0x3ff0000000000000, 0x7fefffffffffffff, 0x7ff0000000000000,
                             0xfff0000000000000, 0x400921fb54442d18])]
FMACH = {c.__name__: c(terminal=True) for c, _, _ in FLOATS}


@obligation('C01', timeout=120, path_timeout=30, drives=['cpppo.server.enip.parser.TYPE.produce'] + AUTOMATA,
            bounds='REAL/LREAL: CONCRETE boundary bit patterns only (+-0, denormal min/max, normal min, 1.0, max, +-inf, pi); which selects the pattern',
            outside='floats are not solver variables (glue realises float formats); NaN payloads')
def scalar_floats(which: int) -> bool:
    """
    pre: 0 <= which < 20
    post: _
    """
    cls, size, pats = FLOATS[which // 10]
    bits = ref.le(pats[which % 10], size)
    d, sent, nxt, term = parse(FMACH[cls.__name__], bits)
    return sent == size and term and blist(cls.produce(d[cls.__name__])) == bits


# ---- strings ---------------------------------------------------------------------------------------------------
SSM = parser.SSTRING(terminal=True)
STM = parser.STRING(terminal=True)


def rt_string(kind, s):
    cls, m, enc = (parser.SSTRING, SSM, ref.sstring) if kind == 'SSTRING' else (parser.STRING, STM, ref.string)
    b = cls.produce(s)
    exp = enc(s)
    d, sent, nxt, term = parse(m, b)
    return (blist(b) == exp and d[kind].string == s and d[kind].length == len(s) and sent == len(exp) and nxt is None and term
            and blist(cls.produce(d[kind])) == exp)


def rt_string_len(kind, s, length):
    """explicit .length: truncate / NUL-fill; pad parity follows .length"""
    cls, m = (parser.SSTRING, SSM) if kind == 'SSTRING' else (parser.STRING, STM)
    v = cpppo.dotdict()
    v.string = s
    v.length = length
    b = cls.produce(v)
    body = ref.latin1(s)[:length] + [0] * (length - len(s))
    exp = ([length] if kind == 'SSTRING' else ref.le(length, 2)) + body + ([0] if kind == 'STRING' and length % 2 else [])
    d, sent, nxt, term = parse(m, b)
    return (blist(b) == exp and [ord(c) for c in d[kind].string] == body and d[kind].length == length and sent == len(exp)
            and nxt is None and term and blist(cls.produce(d[kind])) == exp)


for kind in ('SSTRING', 'STRING'):
    for n, tier in ((3, 'quick'), (5, 'thorough')):
        define(globals(), 'C01', 'string_%s_upto%d' % (kind, n), [('s', 'str')], "return rt_string(%r, s)" % kind,
               ['len(s) <= %d and all(ord(c) < 256 for c in s)' % n], tier=tier, timeout=1500 if n > 3 else 300, path_timeout=60,
               drives=['cpppo.server.enip.parser.%s.produce' % kind, 'cpppo.automata.string_base.terminate', 'cpppo.automata.state.from_regex (.* machine)'] + AUTOMATA,
               bounds='%s text of 0..%d characters, every character 0..255 (ISO-8859-1); odd/even pad' % (kind, n),
               outside='symbolic text longer than %d (concrete long strings in string_long_concrete)' % n)
    define(globals(), 'C01', 'string_%s_explicit_length' % kind, [('s', 'str'), 'length'], "return rt_string_len(%r, s, length)" % kind,
           ['len(s) <= 3 and all(ord(c) < 256 for c in s)', '0 <= length <= 5'], timeout=600, path_timeout=60,
           drives=['cpppo.server.enip.parser.%s.produce' % kind] + AUTOMATA,
           bounds='%s with explicit .length 0..5 and text of 0..3 characters (truncate / NUL fill / pad by length parity)' % kind, outside='')


@obligation('C01', timeout=300, path_timeout=120, drives=['cpppo.server.enip.parser.SSTRING.produce', 'cpppo.server.enip.parser.STRING.produce'] + AUTOMATA,
            bounds='CONCRETE long strings at the width boundaries: SSTRING 254/255 bytes round trip, 256 refused; STRING 255..258 round trip (65536 refusal: string_65536_refused, thorough); c = fill character (symbolic)', outside='')
def string_long_concrete(c: int, which: int) -> bool:
    """
    pre: 1 <= c <= 255 and 0 <= which <= 6
    post: _
    """
    kind, n, ok = [('SSTRING', 254, True), ('SSTRING', 255, True), ('SSTRING', 256, False), ('STRING', 255, True),
                   ('STRING', 256, True), ('STRING', 257, True), ('STRING', 258, True)][which]
    s = chr(c) * n
    cls, m, enc = (parser.SSTRING, SSM, ref.sstring) if kind == 'SSTRING' else (parser.STRING, STM, ref.string)
    try:
        b = cls.produce(s)
    except AssertionError:
        return not ok
    if not ok:
        return False
    d, sent, nxt, term = parse(m, b)
    return blist(b) == enc(s) and d[kind].string == s and sent == len(b) and term


# ---- EPATH -------------------------------------------------------------------------------------------------------
EPM = {c.__name__: c(terminal=True) for c in (parser.EPATH, parser.EPATH_padded, parser.EPATH_single, parser.route_path)}
EP_DRIVES = ['cpppo.server.enip.parser.EPATH.produce', 'cpppo.server.enip.parser.EPATH (machine)', 'cpppo.automata.decide.execute',
             'cpppo.server.enip.parser.move_if.execute'] + AUTOMATA

# segment kinds: (name, params with types, precondition, expression building the segment dict)
KINDS = {
    'class':      (['{p}'], '0 <= {p} <= 0xFFFF', "{{'class': {p}}}"),
    'instance':   (['{p}'], '0 <= {p} <= 0xFFFF', "{{'instance': {p}}}"),
    'attribute':  (['{p}'], '0 <= {p} <= 0xFFFF', "{{'attribute': {p}}}"),
    'connection': (['{p}'], '0 <= {p} <= 0xFFFF', "{{'connection': {p}}}"),
    'element':    (['{p}'], '0 <= {p} <= 0xFFFFFFFF', "{{'element': {p}}}"),
    'symbolic':   ([('{p}', 'str')], '1 <= len({p}) <= {n} and all(ord(c) < 256 for c in {p})', "{{'symbolic': {p}}}"),
    'portnum':    (['{p}', '{p}l'], '1 <= {p} <= 0xFFFF and 0 <= {p}l <= 255', "{{'port': {p}, 'link': {p}l}}"),
    'portadr':    (['{p}', ('{p}a', 'str')], '1 <= {p} <= 0xFFFF and 1 <= len({p}a) <= {n} and all(ord(c) < 256 for c in {p}a)',
                   "{{'port': {p}, 'link': {p}a}}"),
}


def rt_epath(clsname, segs):
    cls = getattr(parser, clsname)
    segs = [cpppo.dotdict(s) for s in segs]
    b = cls.produce({'segment': segs})
    exp = ref.epath(segs, padded=clsname in ('EPATH_padded', 'route_path'), single=clsname == 'EPATH_single')
    d, sent, nxt, term = parse(EPM[clsname], b)
    got = d[clsname]
    ok = blist(b) == exp and sent == len(exp) and nxt is None and term and len(got.segment) == len(segs)
    for g, s in zip(got.segment, segs):
        ok = ok and dict(g) == dict(s)
    if clsname != 'EPATH_single':
        ok = ok and got.size * 2 == len(exp) - (2 if clsname in ('EPATH_padded', 'route_path') else 1)
    return ok and blist(cls.produce(got)) == exp


def def_epath(clsname, kinds, tier, n=3, timeout=600, suffix=''):
    params, pres, exprs = [], [], []
    for i, k in enumerate(kinds):
        ps, pre, expr = KINDS[k]
        p = 'abcd'[i]
        for x in ps:
            params.append((x[0].format(p=p), x[1]) if isinstance(x, tuple) else x.format(p=p))
        pres.append(pre.format(p=p, n=n))
        exprs.append(expr.format(p=p))
    name = 'epath_%s_%s%s' % (clsname, "_".join(kinds) if kinds else 'empty', suffix)
    define(globals(), 'C01', name, params or ['dummy'], "return rt_epath(%r, [%s])" % (clsname, ", ".join(exprs)),
           pres or ['dummy == 0'], tier=tier, timeout=timeout, path_timeout=120, drives=EP_DRIVES,
           bounds='%s with segments %s: logical values over the full 8/16-bit range (element: 8/16/32-bit), names/addresses of '
                  '1..%d characters 0..255, ports 1..65535 (small/extended at 15), links 0..255' % (clsname, list(kinds) or '[] (size 0)', n),
           outside='more segments; longer names')


ALLK = list(KINDS)
for k in ALLK:
    def_epath('EPATH', [k], 'quick')
def_epath('EPATH', [], 'quick')
def_epath('route_path', [], 'quick')
for pair in [('class', 'instance'), ('symbolic', 'element'), ('instance', 'attribute'), ('element', 'element')]:
    def_epath('EPATH', list(pair), 'quick', timeout=900)
for k in ('portnum', 'portadr', 'class', 'symbolic'):
    def_epath('route_path', [k], 'quick')
    def_epath('EPATH_single', [k], 'quick')
    def_epath('EPATH_padded', [k], 'thorough')
def_epath('route_path', ['portnum', 'portnum'], 'quick', timeout=1800)
for pair in itertools.product(ALLK, ALLK):
    if 'epath_EPATH_%s_%s' % pair not in globals():
        def_epath('EPATH', list(pair), 'thorough', timeout=3000, n=2 if ('portadr' in pair or pair == ('symbolic', 'symbolic')) else 3)
for trip in [('class', 'instance', 'attribute'), ('symbolic', 'element', 'symbolic'), ('class', 'instance', 'element'),
             ('portnum', 'portnum', 'portnum'), ('class', 'connection', 'attribute')]:
    def_epath('EPATH', list(trip), 'thorough', timeout=3000, n=2)
def_epath('EPATH', ['symbolic'], 'thorough', n=5, timeout=1800, suffix='_upto5')
def_epath('EPATH', ['portadr'], 'thorough', n=5, timeout=1800, suffix='_upto5')


@obligation('C01', tier='thorough', timeout=900, path_timeout=600, drives=['cpppo.server.enip.parser.STRING.produce'],
            bounds='CONCRETE: STRING of 65535 characters is produced, 65536 is refused', outside='')
def string_65536_refused(c: int) -> bool:
    """
    pre: 65 <= c <= 66
    post: _
    """
    ok = len(parser.STRING.produce(chr(c) * 65535)) == 2 + 65535 + 1
    try:
        parser.STRING.produce(chr(c) * 65536)
    except AssertionError:
        return ok
    return False


# ---- status ------------------------------------------------------------------------------------------------------------
STM_ = parser.status(terminal=True)


def rt_status(code, ext):
    d = cpppo.dotdict()
    d.status = code
    if ext:
        d.status_ext = {'size': len(ext), 'data': list(ext)}
    b = parser.status.produce(d)
    exp = ref.status(code, ext if code else [])                # canonical: no extended status with status 0
    d2, sent, nxt, term = parse(STM_, b)
    ok = blist(b) == exp and sent == len(exp) and nxt is None and term and d2.status == code
    ok = ok and d2.status_ext.size == (len(ext) if code else 0)
    if code and ext:
        ok = ok and list(d2.status_ext.data) == list(ext)
    return ok and blist(parser.status.produce(d2)) == exp


for n in (0, 1, 2):
    es = ['e%d' % i for i in range(n)]
    define(globals(), 'C01', 'status_ext%d' % n, ['code'] + es, "return rt_status(code, [%s])" % ", ".join(es),
           ['0 <= code <= 255'] + ['0 <= %s <= 0xFFFF' % e for e in es], timeout=300, path_timeout=60,
           drives=['cpppo.server.enip.parser.status.produce', 'cpppo.server.enip.parser.status (machine)'] + AUTOMATA,
           bounds='general status 0..255 with %d extended status word(s) over the full 16-bit range' % n, outside='more than 2 extended words')


# ---- typed data -----------------------------------------------------------------------------------------------------------
TD = {n: parser.typed_data(tag_type=getattr(parser, n).tag_type, terminal=True)
      for n in ('BOOL', 'SINT', 'USINT', 'INT', 'UINT', 'DINT', 'UDINT', 'LINT', 'ULINT', 'REAL', 'LREAL', 'SSTRING', 'STRING')}
TD_STRUCT = parser.typed_data(tag_type=parser.STRUCT.tag_type, terminal=True)


def rt_typed(tn, vals):
    cls = getattr(parser, tn)
    d = cpppo.dotdict()
    d.data = list(vals)
    b = parser.typed_data.produce(d, tag_type=cls.tag_type)
    exp = ref.typed(cls.tag_type, vals)
    d2, sent, nxt, term = parse(TD[tn], b)
    got = d2.typed_data.get('data', []) if 'typed_data' in d2 else []
    ok = blist(b) == exp and sent == len(exp) and nxt is None and term and list(got) == list(vals)
    ok = ok and parser.typed_data.datasize(cls.tag_type, len(vals)) == len(exp)
    d3 = cpppo.dotdict()
    d3.data = list(got)
    d3.type = cls.tag_type
    return ok and blist(parser.typed_data.produce(d3)) == exp


for tn in ('SINT', 'USINT', 'INT', 'UINT', 'DINT', 'UDINT'):
    for n in (0, 1, 2, 3):
        vs = ['v%d' % i for i in range(n)]
        lo, hi = sim.RANGE[tn]
        define(globals(), 'C01', 'typed_%s_x%d' % (tn, n), vs or ['dummy'], "return rt_typed(%r, [%s])" % (tn, ", ".join(vs)),
               ['%d <= %s <= %d' % (lo, v, hi) for v in vs] or ['dummy == 0'], tier='quick' if n in (0, 2) else 'thorough',
               timeout=300, path_timeout=60, drives=['cpppo.server.enip.parser.typed_data.produce', 'cpppo.server.enip.parser.typed_data (machine)',
                                                      'cpppo.server.enip.parser.typed_data.datasize'] + AUTOMATA,
               bounds='typed data of %d %s element(s), every value of the type' % (n, tn), outside='more than 3 elements')


def rt_typed_bytes(tn, bs, signed):
    """64-bit: parse direction (bytes symbolic)"""
    cls = getattr(parser, tn)
    d2, sent, nxt, term = parse(TD[tn], bs)
    n = len(bs) // 8
    exp = [ref.un_le(bs[8 * i:8 * i + 8], signed) for i in range(n)]
    return sent == len(bs) and term and list(d2.typed_data.data) == exp


for tn in ('LINT', 'ULINT'):
    bs = ['b%d' % i for i in range(16)]
    define(globals(), 'C01', 'typed_%s_parse_x2' % tn, bs, "return rt_typed_bytes(%r, [%s], %r)" % (tn, ", ".join(bs), tn == 'LINT'),
           [inr(bs)], timeout=300, path_timeout=60, drives=AUTOMATA,
           bounds='typed data of 2 %s elements: every 16-byte string parses to the two reference values' % tn, outside='')
    lo, hi = sim.RANGE[tn]
    define(globals(), 'C01', 'typed_%s_produce_x2' % tn, ['v0', 'v1'],
           "d = cpppo.dotdict(); d.data = [v0, v1]; return blist(parser.typed_data.produce(d, tag_type=parser.%s.tag_type)) == ref.typed(parser.%s.tag_type, [v0, v1])" % (tn, tn),
           ['%d <= v0 <= %d and %d <= v1 <= %d' % (lo, hi, lo, hi)], timeout=300, path_timeout=60,
           drives=['cpppo.server.enip.parser.typed_data.produce'], bounds='typed_data.produce of 2 %s values, full range' % tn, outside='')


@obligation('C01', timeout=300, path_timeout=60, drives=['cpppo.server.enip.parser.typed_data.produce', 'cpppo.server.enip.parser.BOOL.produce'] + AUTOMATA,
            bounds='typed BOOL data: 2 elements from arbitrary bytes; produce canonical 0x00/0xFF', outside='')
def typed_BOOL_x2(b0: int, b1: int) -> bool:
    """
    pre: 0 <= b0 <= 255 and 0 <= b1 <= 255
    post: _
    """
    d2, sent, nxt, term = parse(TD['BOOL'], [b0, b1])
    d = cpppo.dotdict()
    d.data = list(d2.typed_data.data)
    return (list(d2.typed_data.data) == [b0 != 0, b1 != 0] and sent == 2 and term
            and blist(parser.typed_data.produce(d, tag_type=0xC1)) == ref.typed(0xC1, [b0, b1]))


def rt_typed_strings(tn, ss):
    cls = getattr(parser, tn)
    d = cpppo.dotdict()
    d.data = list(ss)
    b = parser.typed_data.produce(d, tag_type=cls.tag_type)
    exp = []
    for s in ss:
        exp += (ref.sstring(s) if tn == 'SSTRING' else ref.string(s))
    d2, sent, nxt, term = parse(TD[tn], b)
    got = d2.typed_data.get('data', []) if 'typed_data' in d2 else []
    return blist(b) == exp and sent == len(exp) and term and list(got) == list(ss)


for tn in ('SSTRING', 'STRING'):
    define(globals(), 'C01', 'typed_%s_x2' % tn, [('s0', 'str'), ('s1', 'str')], "return rt_typed_strings(%r, [s0, s1])" % tn,
           ['len(s0) <= 2 and len(s1) <= 2 and all(ord(c) < 256 for c in s0 + s1)'], timeout=900, path_timeout=120,
           drives=['cpppo.server.enip.parser.typed_data.produce', 'cpppo.server.enip.parser.%s.produce' % tn] + AUTOMATA,
           bounds='typed data of 2 %s elements of 0..2 characters (0..255) each' % tn, outside='longer strings')


@obligation('C01', timeout=600, path_timeout=120, drives=['cpppo.server.enip.parser.typed_data.produce', 'cpppo.server.enip.parser.STRUCT.produce'] + AUTOMATA,
            bounds='typed STRUCT data: structure tag (handle) 16-bit, raw payload of 0..3 bytes', outside='longer payloads')
def typed_STRUCT(tag: int, n: int, p0: int, p1: int, p2: int) -> bool:
    """
    pre: 1 <= tag <= 0xFFFF and 0 <= n <= 3 and 0 <= p0 <= 255 and 0 <= p1 <= 255 and 0 <= p2 <= 255
    post: _
    """
    payload = [p0, p1, p2][:n]
    d = cpppo.dotdict()
    d.structure_tag = tag
    d.data = {'input': bytearray(payload)}
    b = parser.typed_data.produce(d, tag_type=parser.STRUCT.tag_type)
    exp = ref.le(tag, 2) + payload
    d2, sent, nxt, term = parse(TD_STRUCT, b)
    t = d2.typed_data
    return (blist(b) == exp and sent == len(exp) and term and t.structure_tag == tag and blist(t.data.input) == payload)


@obligation('C01', timeout=300, path_timeout=60, drives=['cpppo.server.enip.parser.typed_data.produce'] + AUTOMATA,
            bounds='typed REAL/LREAL data: 2 elements from CONCRETE boundary bit patterns', outside='floats are not solver variables')
def typed_floats(which: int, other: int) -> bool:
    """
    pre: 0 <= which < 20 and 0 <= other < 10
    post: _
    """
    cls, size, pats = FLOATS[which // 10]
    bits = ref.le(pats[which % 10], size) + ref.le(pats[other], size)
    d2, sent, nxt, term = parse(TD[cls.__name__], bits)
    d = cpppo.dotdict()
    d.data = list(d2.typed_data.data)
    return sent == 2 * size and term and blist(parser.typed_data.produce(d, tag_type=cls.tag_type)) == bits


# ---- encapsulation header / frame ---------------------------------------------------------------------------------------------
ENIPM = parser.enip_machine(context='enip', terminal=True)


def rt_enip(command, session, status, options, ctx, payload):
    d = cpppo.dotdict()
    d.command = command
    d.session_handle = session
    d.status = status
    d.options = options
    d.sender_context = {'input': bytearray(ctx)}
    d.input = bytearray(payload)
    b = parser.enip_encode(d)
    exp = ref.encap(command, session, status, ctx, options, payload)
    d2, sent, nxt, term = parse(ENIPM, blist(b) + [0xEE])
    e = d2.enip
    ok = blist(b) == exp and sent == len(exp) and nxt == 0xEE and term
    ok = ok and e.command == command and e.length == len(payload) and e.session_handle == session and e.status == status
    ok = ok and e.options == options and blist(e.sender_context.input) == list(ctx) and blist(e.get('input', [])) == list(payload)
    return ok and blist(parser.enip_encode(e)) == exp


for n in (0, 1, 2, 3):
    ps = ['p%d' % i for i in range(n)]
    cs = ['c%d' % i for i in range(8)]
    define(globals(), 'C01', 'enip_frame_payload%d' % n, ['command', 'session', 'status', 'options'] + cs + ps,
           "return rt_enip(command, session, status, options, [%s], [%s])" % (", ".join(cs), ", ".join(ps)),
           ['0 <= command <= 0xFFFF and 0 <= session <= 0xFFFFFFFF and 0 <= status <= 0xFFFFFFFF and 0 <= options <= 0xFFFFFFFF',
            inr(cs + ps)], tier='quick' if n in (0, 3) else 'thorough',
           timeout=600, path_timeout=120,
           drives=['cpppo.server.enip.parser.enip_encode', 'cpppo.server.enip.parser.enip_header', 'cpppo.server.enip.parser.enip_machine'] + AUTOMATA,
           bounds='encapsulation frame: command, session, status, options over their full width, 8 arbitrary context bytes, payload of %d '
                  'arbitrary byte(s); one trailing byte must be left unconsumed' % n, outside='payloads > 3 bytes with symbolic content (see C02)')


# ---- CPF items, send_data, CIP commands ------------------------------------------------------------------------------------------
TAGS = sim.setup({'A': (parser.INT, 4)})
CPFM = parser.CPF(terminal=True)
CIPM = parser.CIP(terminal=True)
CPF_DRIVES = ['cpppo.server.enip.parser.CPF.produce', 'cpppo.server.enip.parser.CPF (machine)', 'cpppo.server.enip.parser.unconnected_send.produce',
              'cpppo.server.enip.parser.unconnected_send (machine)', 'cpppo.server.enip.parser.route_path', 'cpppo.server.enip.parser.send_data',
              'cpppo.server.enip.parser.CIP.produce', 'cpppo.server.enip.parser.CIP (machine)'] + AUTOMATA


def item(type_id, **kw):
    d = cpppo.dotdict()
    d.type_id = type_id
    for k, v in kw.items():
        d[k] = v
    return d


def rt_cpf(items, exp_items, check):
    d = cpppo.dotdict()
    d.item = items
    b = parser.CPF.produce(d)
    exp = ref.cpf(exp_items)
    d2, sent, nxt, term = parse(CPFM, b)
    ok = blist(b) == exp and sent == len(exp) and nxt is None and term
    got = d2.CPF
    ok = ok and got.count == len(items) and len(got.item) == len(items)
    for g, (tid, body) in zip(got.item, exp_items):
        ok = ok and g.type_id == tid and g.length == len(body)
    ok = ok and check(got.item)
    return ok and blist(parser.CPF.produce(got)) == exp


def us_wrapper(prio, ticks, req, port, link):
    us = cpppo.dotdict()
    us.service = 0x52
    us.path = {'segment': [cpppo.dotdict({'class': 6}), cpppo.dotdict(instance=1)]}
    us.priority = prio
    us.timeout_ticks = ticks
    us.request = {'input': bytearray(req)}
    us.route_path = {'segment': [cpppo.dotdict(port=port, link=link)]}
    return us


def do_cpf_unconnected_send(prio, ticks, req, port, link):
    us = us_wrapper(prio, ticks, req, port, link)
    exp_us = ref.unconnected_send(req, [{'port': port, 'link': link}], priority=prio, ticks=ticks)

    def check(items):
        u = items[1].unconnected_send
        return (items[0].length == 0 and u.service == 0x52 and u.priority == prio and u.timeout_ticks == ticks
                and u.length == len(req) and blist(u.request.input) == list(req)
                and dict(u.route_path.segment[0]) == {'port': port, 'link': link} and len(u.route_path.segment) == 1
                and [dict(s) for s in u.path.segment] == [{'class': 6}, {'instance': 1}])
    return rt_cpf([item(0), item(0xb2, unconnected_send=us)], [(0, []), (0xb2, exp_us)], check)


for n in (1, 2, 3):
    rs = ['r%d' % i for i in range(n)]
    define(globals(), 'C01', 'cpf_unconnected_send_req%d' % n, ['prio', 'ticks', 'port', 'link'] + rs,
           "return do_cpf_unconnected_send(prio, ticks, [%s], port, link)" % ", ".join(rs),
           [inr(['prio', 'ticks', 'link'] + rs), '1 <= port <= 0xFFFF'], tier='quick' if n in (2, 3) else 'thorough',
           timeout=900, path_timeout=120, drives=CPF_DRIVES,
           bounds='CPF [null address, unconnected data 0xB2] carrying an Unconnected Send (0x52): priority, ticks, %d arbitrary embedded request '
                  'byte(s) (odd => pad), route path of one port segment with port 1..65535, link 0..255' % n,
           outside='embedded requests > 3 symbolic bytes')


def do_cpf_opaque(first, rest):
    """anything not starting 0x52 / 0xD2 is an opaque request: passed through unparsed"""
    req = [first] + list(rest)
    us = cpppo.dotdict()
    us.request = {'input': bytearray(req)}

    def check(items):
        return blist(items[1].unconnected_send.request.input) == req
    return rt_cpf([item(0), item(0xb2, unconnected_send=us)], [(0, []), (0xb2, req)], check)


define(globals(), 'C01', 'cpf_opaque_request', ['first', 'r0', 'r1'], "return do_cpf_opaque(first, [r0, r1])",
       [inr(['first', 'r0', 'r1']), 'first != 0x52 and first != 0xD2'], timeout=600, path_timeout=120, drives=CPF_DRIVES,
       bounds='CPF unconnected data item whose 3 bytes do not start with 0x52/0xD2: carried opaque', outside='')


def do_cpf_usend_error(code):
    us = cpppo.dotdict()
    us.service = 0xD2
    us.status = code

    def check(items):
        u = items[1].unconnected_send
        return u.service == 0xD2 and u.status == code and u.status_ext.size == 0
    return rt_cpf([item(0), item(0xb2, unconnected_send=us)], [(0, []), (0xb2, [0xD2, 0, code, 0])], check)


define(globals(), 'C01', 'cpf_unconnected_send_error', ['code'], "return do_cpf_usend_error(code)", ['1 <= code <= 0x0F'],
       timeout=600, path_timeout=120, drives=CPF_DRIVES,
       bounds='Unconnected Send error reply 0xD2 with status 1..15 and no extended status (the 4-byte form)', outside='')


def do_cpf_connected(conn, seq, req):
    cid = cpppo.dotdict()
    cid.connection = conn
    cd = cpppo.dotdict()
    cd.sequence = seq
    cd.request = {'input': bytearray(req)}

    def check(items):
        return (items[0].connection_ID.connection == conn and items[1].connection_data.sequence == seq
                and blist(items[1].connection_data.request.input) == list(req))
    return rt_cpf([item(0xa1, connection_ID=cid), item(0xb1, connection_data=cd)], ref.connected_data(conn, seq, req), check)


define(globals(), 'C01', 'cpf_connected_items', ['conn', 'seq', 'r0', 'r1', 'r2'], "return do_cpf_connected(conn, seq, [r0, r1, r2])",
       ['0 <= conn <= 0xFFFFFFFF and 0 <= seq <= 0xFFFF', inr(['r0', 'r1', 'r2'])], timeout=600, path_timeout=120, drives=CPF_DRIVES + [
           'cpppo.server.enip.parser.connection_ID', 'cpppo.server.enip.parser.connection_data'],
       bounds='CPF [connected address 0xA1 (connection id 32 bit), connected data 0xB1 (sequence 16 bit, 3 arbitrary bytes)]', outside='')


def do_cpf_unrecognized(tid, raw):
    def check(items):
        return blist(items[0].get('input', [])) == list(raw)
    return rt_cpf([item(tid, input=bytearray(raw))] if raw else [item(tid)], [(tid, raw)], check)


define(globals(), 'C01', 'cpf_unrecognized_item', ['tid', 'n', 'r0', 'r1', 'r2'], "return do_cpf_unrecognized(tid, [r0, r1, r2][:n])",
       ['0 <= tid <= 0xFFFF and tid not in (0x0001, 0x00a1, 0x00b1, 0x00b2, 0x0100, 0x000c)', '0 <= n <= 3', inr(['r0', 'r1', 'r2'])],
       timeout=600, path_timeout=120, drives=CPF_DRIVES,
       bounds='one CPF item of any unrecognised type id with 0..3 raw bytes: carried as raw .input', outside='')


def do_cpf_comm_service(version, capability, name):
    cs = cpppo.dotdict()
    cs.version = version
    cs.capability = capability
    cs.service_name = name

    def check(items):
        c = items[0].communications_service
        return c.version == version and c.capability == capability and c.service_name == name
    return rt_cpf([item(0x0100, communications_service=cs)], [(0x0100, ref.le(version, 2) + ref.le(capability, 2) + ref.latin1(name) + [0])], check)


define(globals(), 'C01', 'cpf_communications_service', ['version', 'capability', ('name', 'str')],
       "return do_cpf_comm_service(version, capability, name)",
       ['0 <= version <= 0xFFFF and 0 <= capability <= 0xFFFF', 'len(name) <= 3 and all(0 < ord(c) < 256 for c in name)'],
       timeout=900, path_timeout=120, drives=CPF_DRIVES + ['cpppo.server.enip.parser.communications_service'],
       bounds='List Services item 0x0100: version, capability 16 bit, service name of 0..3 non-NUL characters', outside='longer names')


def do_cpf_identity(version, port, vendor, devtype, product, rev, status, serial, name, state, has_state):
    ido = cpppo.dotdict()
    ido.version = version
    ido.sin_family = 2
    ido.sin_port = port
    ido.sin_addr = '10.1.2.3'
    ido.vendor_id = vendor
    ido.device_type = devtype
    ido.product_code = product
    ido.product_revision = rev
    ido.status_word = status
    ido.serial_number = serial
    ido.product_name = name
    if has_state:
        ido.state = state
    body = (ref.le(version, 2) + ref.be(2, 2) + ref.be(port, 2) + [10, 1, 2, 3] + [0] * 8 + ref.le(vendor, 2) + ref.le(devtype, 2)
            + ref.le(product, 2) + ref.le(rev, 2) + ref.le(status, 2) + ref.le(serial, 4) + ref.sstring(name) + [state if has_state else 0xFF])

    def check(items):
        i = items[0].identity_object
        return (i.version == version and i.sin_family == 2 and i.sin_port == port and i.sin_addr == '10.1.2.3' and i.vendor_id == vendor
                and i.device_type == devtype and i.product_code == product and i.product_revision == rev and i.status_word == status
                and i.serial_number == serial and i.product_name == name and i.state == (state if has_state else 0xFF))
    return rt_cpf([item(0x000c, identity_object=ido)], [(0x000c, body)], check)


define(globals(), 'C01', 'cpf_identity_object', ['version', 'port', 'vendor', 'devtype', 'product', 'rev', 'status', 'serial', ('name', 'str'), 'state', ('has_state', 'bool')],
       "return do_cpf_identity(version, port, vendor, devtype, product, rev, status, serial, name, state, has_state)",
       [inr(['version', 'port', 'vendor', 'devtype', 'product', 'rev', 'status'], 0, 0xFFFF), '0 <= serial <= 0xFFFFFFFF and 0 <= state <= 255',
        'len(name) <= 3 and all(ord(c) < 256 for c in name)'], timeout=900, path_timeout=120,
       drives=CPF_DRIVES + ['cpppo.server.enip.parser.identity_object', 'cpppo.server.enip.parser.IPADDR_network'],
       bounds='List Identity item 0x000C: all numeric fields over their full width, product name 0..3 chars, state present or defaulted to 0xFF; '
              'socket address CONCRETE (10.1.2.3: ipaddress formatting realises)', outside='symbolic IP addresses')


def do_send_data(interface, timeout, prio, ticks, req, port, link, command):
    """full frame: encapsulation + SendRRData/SendUnitData + CPF + Unconnected Send, through enip_machine + CIP"""
    us = us_wrapper(prio, ticks, req, port, link)
    enip = cpppo.dotdict()
    enip.command = command
    enip.session_handle = 0x11223344
    enip.status = 0
    enip.options = 0
    enip.sender_context = {'input': bytearray([1, 2, 3, 4, 5, 6, 7, 8])}
    enip.CIP = {}
    enip.CIP.send_data = {'interface': interface, 'timeout': timeout, 'CPF': {'item': [item(0), item(0xb2, unconnected_send=us)]}}
    enip.input = bytearray(parser.CIP.produce(enip))
    b = parser.enip_encode(enip)
    exp = ref.encap(command, 0x11223344, 0, [1, 2, 3, 4, 5, 6, 7, 8], 0, ref.send_rr_data(
        [(0, []), (0xb2, ref.unconnected_send(req, [{'port': port, 'link': link}], priority=prio, ticks=ticks))], interface, timeout))
    d, sent, nxt, term = parse(ENIPM, b)
    ok = blist(b) == exp and sent == len(exp) and term
    src = cpppo.peekable(d.enip.input)
    with CIPM as m:
        for _ in m.run(path='enip', source=src, data=d):
            pass
        ok = ok and m.terminal
    sd = d.enip.CIP.send_data
    ok = ok and src.sent == len(exp) - 24 and sd.interface == interface and sd.timeout == timeout and sd.CPF.count == 2
    ok = ok and blist(sd.CPF.item[1].unconnected_send.request.input) == list(req)
    d.enip.input = bytearray(parser.CIP.produce(d.enip))
    return ok and blist(parser.enip_encode(d.enip)) == exp


define(globals(), 'C01', 'cip_send_data_frame', ['interface', 'timeout', 'prio', 'ticks', 'r0', 'r1', 'port', 'link', ('unit', 'bool')],
       "return do_send_data(interface, timeout, prio, ticks, [r0, r1], port, link, 0x70 if unit else 0x6f)",
       ['0 <= interface <= 0xFFFFFFFF and 0 <= timeout <= 0xFFFF and 1 <= port <= 0xFFFF', inr(['prio', 'ticks', 'r0', 'r1', 'link'])],
       timeout=900, path_timeout=120, drives=CPF_DRIVES + ['cpppo.server.enip.parser.enip_encode', 'cpppo.server.enip.parser.enip_machine'],
       bounds='complete SendRRData (0x6F) / SendUnitData (0x70) frame: interface, timeout, Unconnected Send with 2 arbitrary request bytes and one '
              'port segment; parsed by enip_machine then CIP (limit = declared length)', outside='')


def do_cip_simple(kind, version, options, session, c0):
    enip = cpppo.dotdict()
    enip.session_handle = session
    enip.status = 0
    enip.options = 0
    ctx = [c0, 2, 3, 4, 5, 6, 7, 8]
    enip.sender_context = {'input': bytearray(ctx)}
    enip.CIP = {}
    if kind == 'register':
        enip.CIP.register = {'protocol_version': version, 'options': options}
        cmd, body = 0x65, ref.register(version, options)
    elif kind == 'unregister':
        enip.CIP.unregister = True
        cmd, body = 0x66, []
    elif kind == 'list_services':
        enip.CIP.list_services = {}
        cmd, body = 0x04, []
    elif kind == 'list_identity':
        enip.CIP.list_identity = {}
        cmd, body = 0x63, []
    elif kind == 'list_interfaces_reply':
        enip.CIP.list_interfaces = {'CPF': {'count': 0}}
        cmd, body = 0x64, [0, 0]
    else:
        enip.CIP.legacy = {}
        enip.command = 0x0001
        cmd, body = 0x0001, []
    enip.input = bytearray(parser.CIP.produce(enip))          # deduces .command from the CIP.<name> present
    b = parser.enip_encode(enip)
    exp = ref.encap(cmd, session, 0, ctx, 0, body)
    d, sent, nxt, term = parse(ENIPM, b)
    ok = blist(b) == exp and enip.command == cmd and sent == len(exp) and term
    src = cpppo.peekable(d.enip.get('input', b''))
    with CIPM as m:
        for _ in m.run(path='enip', source=src, data=d):
            pass
        ok = ok and m.terminal
    name = {'list_interfaces_reply': 'list_interfaces'}.get(kind, kind)
    ok = ok and 'enip.CIP.' + name in d
    if kind == 'register':
        ok = ok and d.enip.CIP.register.protocol_version == version and d.enip.CIP.register.options == options
    return ok and blist(parser.CIP.produce(d.enip)) == body


for kind in ('register', 'unregister', 'list_services', 'list_identity', 'list_interfaces_reply', 'legacy'):
    define(globals(), 'C01', 'cip_command_%s' % kind, ['version', 'options', 'session', 'c0'],
           "return do_cip_simple(%r, version, options, session, c0)" % kind,
           ['0 <= version <= 0xFFFF and 0 <= options <= 0xFFFF and 0 <= session <= 0xFFFFFFFF and 0 <= c0 <= 255'],
           timeout=600, path_timeout=120, drives=CPF_DRIVES + ['cpppo.server.enip.parser.register', 'cpppo.server.enip.parser.unregister',
                                                                'cpppo.server.enip.parser.CPF_service'],
           bounds='complete %s frame; CIP.produce deduces the command code from the CIP.<name> entry; session, context byte, register '
                  'version/options symbolic' % kind, outside='')


# ---- Logix / Object / Message Router / Connection Manager services --------------------------------------------------------------------
SVC_DRIVES = ['cpppo.server.enip.logix.Logix.produce', 'cpppo.server.enip.device.Object.produce', 'cpppo.server.enip.device.Object.parser (dfa_post)',
              'cpppo.server.enip.logix service machines', 'cpppo.server.enip.parser.EPATH.produce', 'cpppo.server.enip.parser.typed_data.produce',
              'cpppo.server.enip.parser.status.produce'] + AUTOMATA


def rt_service(cls, d, exp):
    """produce == reference bytes; parse consumes exactly; produce(parsed) regenerates the bytes -> (ok, parsed)"""
    b = cls.produce(d)
    ok = blist(b) == exp
    d2 = cpppo.dotdict()
    src = cpppo.peekable(b)
    with cls.parser as m:
        for _ in m.run(source=src, data=d2):
            pass
        ok = ok and m.terminal
    ok = ok and src.sent == len(exp) and src.peek() is None
    return ok and blist(cls.produce(d2)) == exp, d2


def tpath(name, elm):
    return {'segment': [cpppo.dotdict(symbolic=name), cpppo.dotdict(element=elm)]}


def segs_of(d):
    return [dict(s) for s in d.path.segment]


def do_read_req(frag, name, elm, elements, offset):
    d = cpppo.dotdict()
    d.path = tpath(name, elm)
    segs = [{'symbolic': name}, {'element': elm}]
    if frag:
        d.read_frag = {'elements': elements, 'offset': offset}
        exp = ref.read_frag(segs, elements, offset)
    else:
        d.read_tag = {'elements': elements}
        exp = ref.read_tag(segs, elements)
    ok, p = rt_service(logix.Logix, d, exp)
    ok = ok and segs_of(p) == segs and p.service == (0x52 if frag else 0x4c)
    if frag:
        return ok and p.read_frag.elements == elements and p.read_frag.offset == offset
    return ok and p.read_tag.elements == elements


NAMEPRE = '1 <= len(name) <= 2 and all(ord(c) < 256 for c in name)'
define(globals(), 'C01', 'svc_read_tag_request', [('name', 'str'), 'elm', 'elements'], "return do_read_req(False, name, elm, elements, 0)",
       [NAMEPRE, '0 <= elm <= 0xFFFFFFFF and 0 <= elements <= 0xFFFF'], timeout=900, path_timeout=120, drives=SVC_DRIVES,
       bounds='Read Tag request: tag name 1..2 chars, element index 32 bit, element count 16 bit', outside='')
define(globals(), 'C01', 'svc_read_frag_request', [('name', 'str'), 'elm', 'elements', 'offset'], "return do_read_req(True, name, elm, elements, offset)",
       [NAMEPRE, '0 <= elm <= 0xFFFFFFFF and 0 <= elements <= 0xFFFF and 0 <= offset <= 0xFFFFFFFF'], timeout=900, path_timeout=120, drives=SVC_DRIVES,
       bounds='Read Tag Fragmented request: name 1..2 chars, element 32 bit, count 16 bit, byte offset 32 bit', outside='')


def do_write_req(frag, tn, name, elm, vals, elements, offset):
    t = getattr(parser, tn).tag_type
    d = cpppo.dotdict()
    d.path = tpath(name, elm)
    segs = [{'symbolic': name}, {'element': elm}]
    if frag:
        d.write_frag = {'type': t, 'elements': elements, 'offset': offset, 'data': list(vals)}
        exp = ref.write_frag(segs, t, vals, elements, offset)
        ctx = 'write_frag'
    else:
        d.write_tag = {'type': t, 'data': list(vals)}
        exp = ref.write_tag(segs, t, vals)
        ctx = 'write_tag'
    ok, p = rt_service(logix.Logix, d, exp)
    ok = ok and segs_of(p) == segs and p[ctx].type == t and list(p[ctx].data) == list(vals)
    if frag:
        return ok and p.write_frag.elements == elements and p.write_frag.offset == offset
    return ok and p.write_tag.elements == len(vals)


for tn in ('SINT', 'INT', 'DINT', 'USINT', 'UINT', 'UDINT'):
    lo, hi = sim.RANGE[tn]
    define(globals(), 'C01', 'svc_write_tag_request_%s' % tn, [('name', 'str'), 'elm', 'v0', 'v1'],
           "return do_write_req(False, %r, name, elm, [v0, v1], 2, 0)" % tn,
           [NAMEPRE, '0 <= elm <= 0xFFFFFFFF', inr(['v0', 'v1'], lo, hi)], tier='quick' if tn in ('INT', 'UDINT') else 'thorough',
           timeout=900, path_timeout=120, drives=SVC_DRIVES, bounds='Write Tag request with 2 %s values (full range), name 1..2 chars, element 32 bit' % tn, outside='')
    define(globals(), 'C01', 'svc_write_frag_request_%s' % tn, [('name', 'str'), 'elm', 'v0', 'elements', 'offset'],
           "return do_write_req(True, %r, name, elm, [v0], elements, offset)" % tn,
           [NAMEPRE, '0 <= elm <= 0xFFFFFFFF and 0 <= elements <= 0xFFFF and 0 <= offset <= 0xFFFFFFFF', inr(['v0'], lo, hi)],
           tier='quick' if tn in ('DINT', 'USINT') else 'thorough',
           timeout=900, path_timeout=120, drives=SVC_DRIVES, bounds='Write Tag Fragmented request with 1 %s value, total elements 16 bit, offset 32 bit' % tn, outside='')


def do_read_reply(frag, tn, status, vals, ext):
    t = getattr(parser, tn).tag_type
    svc = 0xd2 if frag else 0xcc
    ctx = 'read_frag' if frag else 'read_tag'
    d = cpppo.dotdict()
    d.service = svc
    d.status = status
    if status in (0, 6):
        d[ctx] = {'type': t, 'data': list(vals)}
        exp = [svc, 0, status, 0] + ref.le(t, 2) + ref.typed(t, vals)
    else:
        d.status_ext = {'size': 1, 'data': [ext]}
        d[ctx] = True
        exp = [svc, 0] + ref.status(status, [ext])
    ok, p = rt_service(logix.Logix, d, exp)
    ok = ok and p.service == svc and p.status == status
    if status in (0, 6):
        return ok and p[ctx].type == t and list(p[ctx].data) == list(vals)
    return ok and list(p.status_ext.data) == [ext]


for tn in ('INT', 'DINT', 'USINT'):
    lo, hi = sim.RANGE[tn]
    define(globals(), 'C01', 'svc_read_reply_%s' % tn, [('frag', 'bool'), 'status', 'v0', 'v1', 'ext'],
           "return do_read_reply(frag, %r, status, [v0, v1], ext)" % tn,
           ['0 <= status <= 255 and 0 <= ext <= 0xFFFF', inr(['v0', 'v1'], lo, hi)], timeout=900, path_timeout=120, drives=SVC_DRIVES,
           tier='quick' if tn != 'USINT' else 'thorough',
           bounds='Read Tag [Fragmented] reply: any status; 0x00/0x06 carry type + 2 %s values, others one extended status word' % tn, outside='')


def do_write_reply(frag, status, ext):
    svc = 0xd3 if frag else 0xcd
    d = cpppo.dotdict()
    d.service = svc
    d.status = status
    if status:
        d.status_ext = {'size': 1, 'data': [ext]}
    exp = [svc, 0] + ref.status(status, [ext] if status else [])
    ok, p = rt_service(logix.Logix, d, exp)
    return ok and p.service == svc and p.status == status and ('write_frag' if frag else 'write_tag') in p


define(globals(), 'C01', 'svc_write_reply', [('frag', 'bool'), 'status', 'ext'], "return do_write_reply(frag, status, ext)",
       ['0 <= status <= 255 and 0 <= ext <= 0xFFFF'], timeout=600, path_timeout=120, drives=SVC_DRIVES,
       bounds='Write Tag [Fragmented] reply with any status and (if non-zero) one extended status word', outside='')


def npath(c, i, a):
    return {'segment': [cpppo.dotdict({'class': c}), cpppo.dotdict(instance=i), cpppo.dotdict(attribute=a)]}


def do_attr_request(kind, c, i, a, data):
    d = cpppo.dotdict()
    d.path = npath(c, i, a)
    segs = [{'class': c}, {'instance': i}, {'attribute': a}]
    if kind == 'gas':
        d.get_attribute_single = True
        exp = ref.get_attribute_single(segs)
    elif kind == 'gaa':
        d.get_attributes_all = True
        exp = ref.get_attributes_all(segs)
    elif kind == 'sas':
        d.set_attribute_single = {'data': list(data)}
        exp = ref.set_attribute_single(segs, data)
    else:
        d.get_attribute_list = list(data)
        exp = ref.get_attribute_list(segs, data)
    ok, p = rt_service(device.Object, d, exp)
    ok = ok and segs_of(p) == segs
    if kind == 'sas':
        ok = ok and list(p.set_attribute_single.data) == list(data)
    if kind == 'gal':
        ok = ok and list(p.get_attribute_list) == list(data)
    return ok


for kind, nm in (('gas', 'Get Attribute Single'), ('gaa', 'Get Attributes All'), ('sas', 'Set Attribute Single'), ('gal', 'Get Attribute List')):
    define(globals(), 'C01', 'svc_%s_request' % kind, ['c', 'i', 'a', 'd0', 'd1'], "return do_attr_request(%r, c, i, a, [d0, d1])" % kind,
           [inr(['c', 'i', 'a'], 0, 0xFFFF), inr(['d0', 'd1'], 0, 255 if kind == 'sas' else 0xFFFF)], timeout=900, path_timeout=120, drives=SVC_DRIVES,
           bounds='%s request: class/instance/attribute 16 bit each%s' % (nm, ', 2 data bytes' if kind == 'sas' else (', 2 attribute ids' if kind == 'gal' else '')), outside='')


def do_attr_reply(svc, ctx, status, data, ext):
    d = cpppo.dotdict()
    d.service = svc
    d.status = status
    if status:
        d.status_ext = {'size': 1, 'data': [ext]}
    if ctx:
        d[ctx] = {'data': list(data)}
    exp = [svc, 0] + ref.status(status, [ext] if status else []) + (list(data) if (status == 0 and ctx) else [])
    ok, p = rt_service(device.Object, d, exp)
    ok = ok and p.service == svc and p.status == status
    if status == 0 and ctx:
        ok = ok and list(p[ctx].data) == list(data)
    return ok


for svc, ctx, nm in ((0x8e, 'get_attribute_single', 'gas'), (0x81, 'get_attributes_all', 'gaa'), (0x90, None, 'sas')):
    define(globals(), 'C01', 'svc_%s_reply' % nm, ['status', 'd0', 'd1', 'd2', 'ext'], "return do_attr_reply(%d, %r, status, [d0, d1, d2], ext)" % (svc, ctx),
           [inr(['status', 'd0', 'd1', 'd2']), '0 <= ext <= 0xFFFF'], timeout=900, path_timeout=120, drives=SVC_DRIVES,
           bounds='reply 0x%02x with any status (+1 extended word if non-zero) and 3 arbitrary data bytes on success' % svc, outside='')


def do_generic(svc, c, i, data, status):
    d = cpppo.dotdict()
    d.service = svc
    d.path = {'segment': [cpppo.dotdict({'class': c}), cpppo.dotdict(instance=i)]}
    d.service_code = {'data': list(data)}
    exp = [svc] + ref.epath([{'class': c}, {'instance': i}]) + list(data)
    ok = blist(device.Object.produce(d)) == exp            # a generic request cannot be parsed as a request: produce only
    r = cpppo.dotdict()
    r.service = svc | 0x80
    r.status = status
    r.service_code = {'data': list(data)}
    expr = [svc | 0x80, 0, status, 0] + (list(data) if status == 0 else [])
    ok2, p = rt_service(device.Object, r, expr)
    return ok and ok2 and p.service == svc | 0x80 and p.status == status and (status != 0 or list(p.service_code.data) == list(data))


define(globals(), 'C01', 'svc_generic_service_code', ['svc', 'c', 'i', 'd0', 'd1', 'status'], "return do_generic(svc, c, i, [d0, d1], status)",
       ['0x20 <= svc <= 0x27 and 0 <= c <= 0xFFFF and 0 <= i <= 0xFFFF', inr(['d0', 'd1', 'status'])], timeout=900, path_timeout=120, drives=SVC_DRIVES,
       bounds='generic service code 0x20..0x27 (no dedicated parser): request produce, reply round trip with 2 data bytes', outside='')


# ---- Multiple Service Packet: offsets --------------------------------------------------------------------------------------------------
def do_msp_request(name, elm, elements, v0, n2, typ=0xc3):
    """bundle of [Read Tag Fragmented, Write Tag INT, Read Tag] with symbolic member lengths (name length, values)"""
    r1 = cpppo.dotdict()
    r1.path = tpath(name, elm)
    r1.read_frag = {'elements': elements, 'offset': 0}
    r2 = cpppo.dotdict()
    r2.path = {'segment': [cpppo.dotdict(symbolic='A')]}
    r2.write_tag = {'type': typ, 'data': [v0] * n2}
    r3 = cpppo.dotdict()
    r3.path = {'segment': [cpppo.dotdict(symbolic='A')]}
    r3.read_tag = {'elements': 1}
    d = cpppo.dotdict()
    d.multiple = {'request': [r1, r2, r3]}
    m1 = ref.read_frag([{'symbolic': name}, {'element': elm}], elements, 0)
    m2 = ref.write_tag([{'symbolic': 'A'}], typ, [v0] * n2)
    m3 = ref.read_tag([{'symbolic': 'A'}], 1)
    exp = ref.multiple([m1, m2, m3])
    b = logix.Logix.produce(d)
    ok = blist(b) == exp
    # offset table: first 2+2N, each next advanced by the previous member's length
    offs = [ref.un_le(exp[8 + 2 * k:10 + 2 * k]) for k in range(3)]
    ok = ok and offs == [8, 8 + len(m1), 8 + len(m1) + len(m2)]
    p = cpppo.dotdict()
    src = cpppo.peekable(b)
    with logix.Logix.parser as m:
        for _ in m.run(source=src, data=p):
            pass
        ok = ok and m.terminal
    ok = ok and src.sent == len(exp) and p.multiple.number == 3 and list(p.multiple.offsets) == offs
    rq = p.multiple.request
    ok = ok and len(rq) == 3 and rq[0].read_frag.elements == elements and segs_of(rq[0]) == [{'symbolic': name}, {'element': elm}]
    ok = ok and list(rq[1].write_tag.data) == [v0] * n2 and rq[2].read_tag.elements == 1
    return ok and blist(logix.Logix.produce(p)) == exp


WIDTHS = {8: (0, 0xFF), 16: (0x100, 0xFFFF), 32: (0x10000, 0xFFFFFFFF)}
for _nl in (1, 2, 3):
    for _w in (8, 16, 32):
        for _n2 in (1, 2):
            cs = ['c%d' % k for k in range(_nl)]
            define(globals(), 'C01', 'msp_request_name%d_elm%d_vals%d' % (_nl, _w, _n2), cs + ['elm', 'elements', 'v0'],
                   "return do_msp_request(%s, elm, elements, v0, %d)" % (" + ".join("chr(%s)" % c for c in cs), _n2),
                   [inr(cs), '%d <= elm <= %d and 0 <= elements <= 0xFFFF and -32768 <= v0 <= 32767' % WIDTHS[_w]],
                   tier='quick' if (_nl, _w, _n2) in ((1, 8, 1), (2, 16, 2), (3, 32, 1)) else 'thorough',
                   timeout=1200, path_timeout=300, drives=SVC_DRIVES + ['cpppo.server.enip.device.Message_Router.produce',
                                                                        'cpppo.server.enip.device.state_multiple_service.terminate', 'cpppo.automata.dfa_post'],
                   bounds='Multiple Service Packet request of 3 members [Read Tag Fragmented (name of %d arbitrary chars, %d-bit element), Write Tag of %d '
                          'INT value(s), Read Tag]: offsets = 2+2N then + previous length; parse recovers every member; reproduce' % (_nl, _w, _n2),
                   outside='more than 3 members; zero-element typed data (not parseable by typed_data)')

for _n2 in (1, 3):
    define(globals(), 'C01', 'msp_request_odd_member_sint%d' % _n2, ['c0', 'elm', 'elements', 'v0'],
           "return do_msp_request(chr(c0), elm, elements, v0, %d, 0xc2)" % _n2,
           [inr(['c0']), '0 <= elm <= 255 and 0 <= elements <= 0xFFFF and -128 <= v0 <= 127'],
           timeout=1200, path_timeout=300,
           drives=SVC_DRIVES + ['cpppo.server.enip.device.Message_Router.produce', 'cpppo.server.enip.device.state_multiple_service.terminate', 'cpppo.automata.dfa_post'],
           bounds='Multiple Service Packet request whose middle member has an ODD encoded length (Write Tag of %d SINT): members are packed without padding, '
                  'offsets = 2+2N then + previous length; parse recovers every member; reproduce' % _n2, outside='more than 3 members')


def do_msp_reply(s1, v0, v1, s2, ext, n):
    m1 = cpppo.dotdict()
    m1.service = 0xcc
    m1.status = s1
    vals = [v0, v1][:n]
    if s1 in (0, 6):
        m1.read_tag = {'type': 0xc4, 'data': vals}
        e1 = [0xcc, 0, s1, 0] + ref.le(0xc4, 2) + ref.typed(0xc4, vals)
    else:
        m1.status_ext = {'size': 1, 'data': [ext]}
        m1.read_tag = True
        e1 = [0xcc, 0] + ref.status(s1, [ext])
    m2 = cpppo.dotdict()
    m2.service = 0xcd
    m2.status = s2
    if s2:
        m2.status_ext = {'size': 1, 'data': [ext]}
    e2 = [0xcd, 0] + ref.status(s2, [ext] if s2 else [])
    d = cpppo.dotdict()
    d.service = 0x8a
    d.status = 0x1e if (s1 not in (0, 6) or s2) else 0
    d.multiple = {'request': [m1, m2]}
    exp = ref.multiple_reply([e1, e2], d.status)
    b = logix.Logix.produce(d)
    ok = blist(b) == exp
    p = cpppo.dotdict()
    src = cpppo.peekable(b)
    with logix.Logix.parser as m:
        for _ in m.run(source=src, data=p):
            pass
        ok = ok and m.terminal
    rq = p.multiple.request
    ok = ok and src.sent == len(exp) and len(rq) == 2 and rq[0].status == s1 and rq[1].status == s2 and rq[0].service == 0xcc and rq[1].service == 0xcd
    if s1 in (0, 6):
        ok = ok and list(rq[0].read_tag.data) == vals
    return ok and list(p.multiple.offsets) == [6, 6 + len(e1)] and blist(logix.Logix.produce(p)) == exp


for _s1 in (0, 6):
    for _n in (1, 2):
        define(globals(), 'C01', 'msp_reply_read%02x_x%d' % (_s1, _n), ['v0', 'v1', 's2', 'ext'], "return do_msp_reply(%d, v0, v1, s2, ext, %d)" % (_s1, _n),
               ['0 <= s2 <= 255 and 0 <= ext <= 0xFFFF', inr(['v0', 'v1'], -2**31, 2**31 - 1)],
               tier='quick' if (_s1, _n) in ((0, 2), (6, 1)) else 'thorough', timeout=1200, path_timeout=300,
               drives=SVC_DRIVES + ['cpppo.server.enip.device.Message_Router.produce', 'cpppo.server.enip.device.state_multiple_service.terminate'],
               bounds='Multiple Service Packet reply with 2 members: Read Tag reply status 0x%02x with %d DINT value(s) (full range); Write Tag reply '
                      'with any status (+ extended word)' % (_s1, _n), outside='')
define(globals(), 'C01', 'msp_reply_read_error', ['s1', 's2', 'ext'], "return do_msp_reply(s1, 0, 0, s2, ext, 1)",
       ['1 <= s1 <= 255 and s1 != 6 and 0 <= s2 <= 255 and 0 <= ext <= 0xFFFF'],
       timeout=1200, path_timeout=300, drives=SVC_DRIVES + ['cpppo.server.enip.device.Message_Router.produce', 'cpppo.server.enip.device.state_multiple_service.terminate'],
       bounds='Multiple Service Packet reply whose first member is a failed Read Tag (any error status + extended word), second a Write Tag reply', outside='')


# ---- Connection Manager: Forward Open (small / large / mixed) and Forward Close --------------------------------------------------------------
CM = device.Connection_Manager
FO_DRIVES = ['cpppo.server.enip.device.Connection_Manager.produce', 'cpppo.server.enip.device.Connection_Manager service machines (Forward Open small/large, replies, Forward Close)',
             'cpppo.server.enip.device.Connection_decode.execute', 'cpppo.server.enip.defaults.Connection (NCP encode/decode, large setter)'] + AUTOMATA
CPATH = [{'port': 1, 'link': 0}, {'class': 2}, {'instance': 1}]


def conn(cid, rpi, size, variable, priority, ctype, redundant):
    return dict(connection_ID=cid, RPI=rpi, size=size, variable=variable, priority=priority, type=ctype, redundant=redundant)


def do_forward_open_request(ot, to, prio, ticks, serial, vendor, oserial, mult, transport):
    d = cpppo.dotdict()
    d.path = {'segment': [cpppo.dotdict({'class': 6}), cpppo.dotdict(instance=1)]}
    d.forward_open = {'priority_time_tick': prio, 'timeout_ticks': ticks, 'connection_serial': serial, 'O_vendor': vendor, 'O_serial': oserial,
                      'connection_timeout_multiplier': mult, 'transport_class_triggers': transport, 'O_T': dict(ot), 'T_O': dict(to),
                      'connection_path': {'segment': [cpppo.dotdict(s) for s in CPATH]}}
    large = ot['size'] > 0x1FF or to['size'] > 0x1FF           # either side large => Large Forward Open, BOTH words in the 32-bit layout
    exp = ref.forward_open(large, prio, ticks, ot['connection_ID'], to['connection_ID'], serial, vendor, oserial, mult,
                           ot['RPI'], ref.ncp(ot['size'], ot['variable'], ot['priority'], ot['type'], ot['redundant'], large),
                           to['RPI'], ref.ncp(to['size'], to['variable'], to['priority'], to['type'], to['redundant'], large), transport, CPATH)
    ok, p = rt_service(CM, d, exp)
    f = p.forward_open
    ok = ok and p.service == (0x5b if large else 0x54) and f.priority_time_tick == prio and f.timeout_ticks == ticks and f.connection_serial == serial
    ok = ok and f.O_vendor == vendor and f.O_serial == oserial and f.connection_timeout_multiplier == mult and f.transport_class_triggers == transport
    for got, want in ((f.O_T, ot), (f.T_O, to)):
        for k in ('connection_ID', 'RPI', 'size', 'variable', 'priority', 'type', 'redundant'):
            ok = ok and got[k] == want[k]
        ok = ok and got.large == large
    return ok and [dict(s) for s in f.connection_path.segment] == CPATH


def C(size):
    """a concrete connection (the other side of the obligation)"""
    return conn(0x11223344, 0x00012345, size, 1, 0, 2, 0)


SIZES = {'small': (1, 2, 255, 256, 510, 511), 'large': (512, 513, 4000, 32768, 65534, 65535)}


def fo_side(shape, side, cid, rpi, sz, bits, ptt, ticks, serial, vendor, oserial, mult, transport, full=True):
    """the connection parameter FIELDS are chosen by selectors (6 boundary sizes x all 64 combinations of variable/priority/type/redundant): the bit
    packing is then concrete per path (z3 cannot keep shifts/masks of symbolic ints cheap), ids/RPI/serials/header bytes stay solver variables"""
    o, t = shape.split('_')
    mine = o if side == 'O_T' else t
    other = t if side == 'O_T' else o
    if full:
        size = SIZES[mine][concretize(sz, 6)]
        bits = concretize(bits, 64)
    else:                                   # quick tier: 3 sizes (min, mid, max) x 16 field combinations incl. all-zero and all-ones
        size = (SIZES[mine][0], SIZES[mine][2], SIZES[mine][5])[concretize(sz, 3)]
        bits = (0, 1, 6, 7, 8, 24, 25, 31, 32, 33, 38, 45, 56, 57, 62, 63)[concretize(bits, 16)]
    var, prio, ctype, red = bits & 1, (bits >> 1) & 3, (bits >> 3) & 3, (bits >> 5) & 1
    sym = conn(cid, rpi, size, var, prio, ctype, red)
    oth = C(400 if other == 'small' else 4000)
    ot, to = (sym, oth) if side == 'O_T' else (oth, sym)
    return do_forward_open_request(ot, to, ptt, ticks, serial, vendor, oserial, mult, transport)


for shape in ('small_small', 'large_large', 'small_large', 'large_small'):
    for side in ('O_T', 'T_O'):
        for full in (False, True):
            define(globals(), 'C01', 'forward_open_request_%s_%s%s' % (shape, side, '_all' if full else ''),
                   ['cid', 'rpi', 'sz', 'bits', 'ptt', 'ticks', 'serial', 'vendor', 'oserial', 'mult', 'transport'],
                   "return fo_side(%r, %r, cid, rpi, sz, bits, ptt, ticks, serial, vendor, oserial, mult, transport, %r)" % (shape, side, full),
                   ['0 <= cid <= 0xFFFFFFFF and 0 <= rpi <= 0xFFFFFFFF and 0 <= sz <= %d and 0 <= bits <= %d' % ((5, 63) if full else (2, 15)),
                    inr(['ptt', 'ticks', 'mult', 'transport']), '0 <= serial <= 0xFFFF and 0 <= vendor <= 0xFFFF and 0 <= oserial <= 0xFFFFFFFF'],
                   tier='thorough' if full or (shape, side) not in (('small_small', 'O_T'), ('large_large', 'T_O'), ('small_large', 'O_T'), ('large_small', 'T_O')) else 'quick',
                   timeout=3000, path_timeout=300, drives=FO_DRIVES,
                   symbolic=['cid, rpi (32 bit), header bytes, serials: solver variables', 'sz: selects one of %d boundary sizes' % (6 if full else 3),
                             'bits: selects %d combinations of variable x priority x type x redundant' % (64 if full else 16)],
                   bounds='Forward Open request with O->T %s / T->O %s connection; the %s connection takes %s of the parameter fields and %d boundary sizes '
                          '(selector-enumerated), ids/RPI/serials/header fields symbolic; the other connection concrete; either side large => Large Forward Open with '
                          'both parameter words in the 32-bit layout' % (shape.split('_')[0], shape.split('_')[1], side, 'every combination' if full else '16 combinations', 6 if full else 3),
                   outside='other sizes; both connections varying at once; other connection paths')


def do_forward_open_reply(large, oid, tid, serial, vendor, oserial, oapi, tapi, n, a0, a1, a2):
    app = [a0, a1, a2][:n]
    d = cpppo.dotdict()
    d.service = 0xdb if large else 0xd4
    d.status = 0
    d.forward_open = {'O_T': {'connection_ID': oid, 'API': oapi}, 'T_O': {'connection_ID': tid, 'API': tapi}, 'connection_serial': serial,
                      'O_vendor': vendor, 'O_serial': oserial}
    if n:
        d.forward_open.application = {'data': list(app)}
    padded = app + ([0] if n % 2 else [])
    exp = [d.service, 0, 0, 0] + ref.le(oid, 4) + ref.le(tid, 4) + ref.le(serial, 2) + ref.le(vendor, 2) + ref.le(oserial, 4) + ref.le(oapi, 4) + ref.le(tapi, 4) + [len(padded) // 2, 0] + padded
    ok, p = rt_service(CM, d, exp)
    f = p.forward_open
    return (ok and f.O_T.connection_ID == oid and f.T_O.connection_ID == tid and f.connection_serial == serial and f.O_vendor == vendor and f.O_serial == oserial
            and f.O_T.API == oapi and f.T_O.API == tapi and f.application.size == len(padded) // 2 and list(f.application.data) == padded)


for _n in (0, 1, 2, 3):
    for _large in (False, True):
        define(globals(), 'C01', 'forward_open_reply_success_%s_app%d' % ('large' if _large else 'small', _n), ['oid', 'tid', 'serial', 'vendor', 'oserial', 'oapi', 'tapi', 'a0', 'a1', 'a2'],
               "return do_forward_open_reply(%r, oid, tid, serial, vendor, oserial, oapi, tapi, %d, a0, a1, a2)" % (_large, _n),
               [inr(['oid', 'tid', 'oserial', 'oapi', 'tapi'], 0, 0xFFFFFFFF), inr(['serial', 'vendor'], 0, 0xFFFF), inr(['a0', 'a1', 'a2'])],
               tier='quick' if (_large, _n) in ((False, 0), (True, 3), (False, 1)) else 'thorough', timeout=1800, path_timeout=300, drives=FO_DRIVES,
               bounds='successful %s Forward Open reply: ids, serials, APIs symbolic; application data of %d arbitrary byte(s) (odd length padded to words)' % (
                   'Large' if _large else 'Small', _n), outside='')


def do_forward_open_failure(large, status, ext, serial, vendor, oserial, remaining, has_remaining):
    d = cpppo.dotdict()
    d.service = 0xdb if large else 0xd4
    d.status = status
    d.status_ext = {'size': 1, 'data': [ext]}
    d.forward_open = {'connection_serial': serial, 'O_vendor': vendor, 'O_serial': oserial}
    exp = [d.service, 0] + ref.status(status, [ext]) + ref.le(serial, 2) + ref.le(vendor, 2) + ref.le(oserial, 4)
    if has_remaining:
        d.forward_open.remaining_path_size = remaining
        exp += [remaining, 0]
    ok, p = rt_service(CM, d, exp)
    f = p.forward_open
    ok = ok and p.status == status and list(p.status_ext.data) == [ext] and f.connection_serial == serial and f.O_vendor == vendor and f.O_serial == oserial
    return ok and (not has_remaining or f.remaining_path_size == remaining)


define(globals(), 'C01', 'forward_open_reply_failure', [('large', 'bool'), 'status', 'ext', 'serial', 'vendor', 'oserial', 'remaining', ('has_remaining', 'bool')],
       "return do_forward_open_failure(large, status, ext, serial, vendor, oserial, remaining, has_remaining)",
       ['1 <= status <= 255 and 0 <= ext <= 0xFFFF and 0 <= serial <= 0xFFFF and 0 <= vendor <= 0xFFFF and 0 <= oserial <= 0xFFFFFFFF and 0 <= remaining <= 255'],
       timeout=1800, path_timeout=300, drives=FO_DRIVES,
       bounds='failed Forward Open reply: any error status + extended word, serials, with and without remaining path size', outside='')


def do_forward_close(prio, ticks, serial, vendor, oserial, status, n, a0, a1):
    d = cpppo.dotdict()
    d.path = {'segment': [cpppo.dotdict({'class': 6}), cpppo.dotdict(instance=1)]}
    d.forward_close = {'priority_time_tick': prio, 'timeout_ticks': ticks, 'connection_serial': serial, 'O_vendor': vendor, 'O_serial': oserial,
                       'connection_path': {'segment': [cpppo.dotdict(s) for s in CPATH]}}
    ok, p = rt_service(CM, d, ref.forward_close(prio, ticks, serial, vendor, oserial, CPATH))
    f = p.forward_close
    ok = ok and p.service == 0x4e and f.priority_time_tick == prio and f.timeout_ticks == ticks and f.connection_serial == serial and f.O_vendor == vendor and f.O_serial == oserial
    ok = ok and [dict(s) for s in f.connection_path.segment] == CPATH
    # reply
    app = [a0, a1][:n]
    r = cpppo.dotdict()
    r.service = 0xce
    r.status = 0
    r.forward_close = {'connection_serial': serial, 'O_vendor': vendor, 'O_serial': oserial}
    if n:
        r.forward_close.application = {'data': list(app)}
    padded = app + ([0] if n % 2 else [])
    exp = [0xce, 0, 0, 0] + ref.le(serial, 2) + ref.le(vendor, 2) + ref.le(oserial, 4) + [len(padded) // 2, 0] + padded
    ok2, q = rt_service(CM, r, exp)
    g = q.forward_close
    return ok and ok2 and g.connection_serial == serial and g.O_vendor == vendor and g.O_serial == oserial and list(g.application.data) == padded


define(globals(), 'C01', 'forward_close_request_reply', ['prio', 'ticks', 'serial', 'vendor', 'oserial', 'status', 'n', 'a0', 'a1'],
       "return do_forward_close(prio, ticks, serial, vendor, oserial, status, n, a0, a1)",
       [inr(['prio', 'ticks', 'status', 'a0', 'a1']), '0 <= serial <= 0xFFFF and 0 <= vendor <= 0xFFFF and 0 <= oserial <= 0xFFFFFFFF and 0 <= n <= 2'],
       timeout=1800, path_timeout=300, drives=FO_DRIVES,
       bounds='Forward Close request (padded connection path) and successful reply with 0..2 application bytes; every field symbolic', outside='')
