"""C14 -- independent implementations interoperate with the simulator: requests encoded byte by byte by the reference encoder
(vrt/ref_cip.py, written from the CIP tables, shares no code with cpppo) are answered with replies the reference decoder accepts
and that carry the values of the array model."""
import types

from vrt import glue, sim, ref_cip as ref
from vrt.ob import define
import cpppo
from cpppo.server.enip import parser, device, logix, ucmm

glue.activate(cpppo.automata, cpppo.dotdict, parser, device, logix, ucmm)
N = 5
_SPEC = {}
for _k in range(9):
    _SPEC['T%d' % _k] = (parser.DINT, 1 + _k % 3)            # 13 auto-allocated tags: attribute numbers beyond 9
_SPEC.update({'A': (parser.INT, N), 'B': (parser.DINT, 2), 'BIG': (parser.INT, 30), 'S': (parser.SINT, 3)})
TAGS = sim.setup(_SPEC)
ucmm.UCMM.parser = parser.CIP()
CM = device.lookup(6, 1)
ADDR = ('10.1.1.1', 50001)

DRIVES = ['cpppo.server.enip.logix.process', 'cpppo.server.enip.ucmm.UCMM.request (register, unregister, unconnected and connected branches)',
          'cpppo.server.enip.device.Connection_Manager.request / forward_open / forward_close / produce', 'cpppo.server.enip.defaults.Connection (NCP decode/encode)',
          'cpppo.server.enip.parser.connection_ID / connection_data / CPF / send_data', 'cpppo.server.enip.logix.Logix.request', 'cpppo.server.enip.device.Message_Router.request']
STUBS = ['random (session handle, O->T connection id) -> deterministic counter', 'no sockets: frames handed to the real enip_machine + logix.process']


def talk(frame):
    proceed, rpy, data = sim.process(frame, addr=ADDR, tags=TAGS)
    return proceed, (None if rpy is None else [x for x in rpy])


def rr(session, req, routed=True):
    body = ref.unconnected_send(req, [{'port': 1, 'link': 0}]) if routed else req
    return ref.encap(0x6f, session, 0, [7] * 8, 0, ref.send_rr_data([(0, []), (0xb2, body)]))


def un_rr(rpy, session):
    e = ref.un_encap(rpy)
    assert e['command'] == 0x6f and e['status'] == 0 and e['session'] == session and e['context'] == [7] * 8 and e['rest'] == []
    items, rest = ref.un_cpf(e['payload'][6:])
    assert rest == [] and len(items) == 2 and items[0] == (0, []) and items[1][0] == 0xb2
    return items[1][1]


def unit(session, conn, seq, req):
    return ref.encap(0x70, session, 0, [8] * 8, 0, ref.send_rr_data(ref.connected_data(conn, seq, req)))


def un_unit(rpy, session, conn, seq):
    e = ref.un_encap(rpy)
    assert e['command'] == 0x70 and e['status'] == 0 and e['session'] == session and e['rest'] == []
    items, rest = ref.un_cpf(e['payload'][6:])
    assert rest == [] and len(items) == 2 and items[0][0] == 0xa1 and items[1][0] == 0xb1
    assert ref.un_le(items[0][1]) == conn and ref.un_le(items[1][1][:2]) == seq          # addressed to the connection, sequence echoed
    return ref.un_reply(items[1][1][2:])


def register():
    sim.RANDOM.n = 1000
    ucmm.UCMM.sessions = {}
    device.Connection_Manager.forwards = {}
    proceed, rpy = talk(ref.encap(0x65, 0, 0, [6] * 8, 0, ref.register()))
    e = ref.un_encap(rpy)
    assert proceed and e['command'] == 0x65 and e['status'] == 0 and e['session'] != 0 and e['payload'] == ref.register()
    return e['session']


FO_PATH = [{'port': 1, 'link': 0}, {'class': 2}, {'instance': 1}]


def open_session(large=False, t_o_id=0x22, serial=3, vendor=4, oserial=5, rpi=1000, size=500):
    sess = register()
    ncp_ = ref.ncp(size, True, 0, 2, False, large)
    fo = ref.forward_open(large, 5, 157, 0x11111111, t_o_id, serial, vendor, oserial, 1, rpi, ncp_, rpi, ncp_, 0xa3, FO_PATH)
    proceed, rpy = talk(rr(sess, fo, routed=False))
    r = ref.un_reply(un_rr(rpy, sess))
    return sess, proceed, r


def do_forward_open(large, t_o_id, serial, vendor, oserial, rpi, size):
    """Register, Forward Open (small/large) with symbolic parameters, Forward Close, Unregister"""
    sess, proceed, r = open_session(large, t_o_id, serial, vendor, oserial, rpi, size)
    ok = proceed and r['service'] == (0xdb if large else 0xd4) and r['status'] == 0
    d = r['data']
    o_t = ref.un_le(d[0:4])
    ok = ok and o_t != 0 and ref.un_le(d[4:8]) == t_o_id and ref.un_le(d[8:10]) == serial and ref.un_le(d[10:12]) == vendor
    ok = ok and ref.un_le(d[12:16]) == oserial and ref.un_le(d[16:20]) == rpi and ref.un_le(d[20:24]) == rpi and d[24:26] == [0, 0] and len(d) == 26
    ok = ok and list(device.Connection_Manager.forwards) == [(ADDR[0], ADDR[1], o_t)]      # keyed by (peer, port, O->T connection id)
    # Forward Close purges the connection; Unregister ends the session without a reply
    proceed, rpy = talk(rr(sess, ref.forward_close(5, 157, serial, vendor, oserial, FO_PATH), routed=False))
    r = ref.un_reply(un_rr(rpy, sess))
    ok = ok and r['service'] == 0xce and r['status'] == 0 and ref.un_le(r['data'][0:2]) == serial and ref.un_le(r['data'][2:4]) == vendor
    ok = ok and ref.un_le(r['data'][4:8]) == oserial and not device.Connection_Manager.forwards
    proceed, rpy = talk(ref.encap(0x66, sess, 0, [6] * 8, 0, []))
    return ok and not proceed and rpy is None


for large in (False, True):
    define(globals(), 'C14', 'forward_open_%s' % ('large' if large else 'small'), ['t_o_id', 'serial', 'vendor', 'oserial', 'rpi'],
           "return do_forward_open(%r, t_o_id, serial, vendor, oserial, rpi, %d)" % (large, 4002 if large else 500),
           ['0 <= t_o_id <= 0xFFFFFFFF and 0 <= serial <= 0xFFFF and 0 <= vendor <= 0xFFFF and 0 <= oserial <= 0xFFFFFFFF and 0 <= rpi <= 0xFFFFFFFF'],
           timeout=3000, path_timeout=600, drives=DRIVES, stubs=STUBS,
           symbolic=['T->O connection id, connection serial, vendor, originator serial, RPI (32/16 bit full range)'],
           bounds='reference-encoded Register + %s Forward Open with symbolic parameters + Forward Close + Unregister: reply decoded by the reference decoder '
                  'echoes every parameter, assigns a non-zero O->T id, forwards table keyed by (peer, port, O->T id) and purged on close; Unregister sends '
                  'nothing' % ('Large' if large else 'Small'), outside='TCP itself')


def do_forward_open_rejected(large, o_t_id, serial, vendor, oserial, rpi):
    """a Forward Open the Connection Manager refuses (a second one for an O->T connection id the peer already holds, O->T multicast so the
    originator's id is kept) is answered by ONE Forward Open REPLY (service|0x80) with a CIP error status -- never an echo of the request"""
    sess = register()
    ncp_ = ref.ncp(4002 if large else 500, True, 0, 1, False, large)
    fo = ref.forward_open(large, 5, 157, o_t_id, 0x22, serial, vendor, oserial, 1, rpi, ncp_, rpi, ncp_, 0xa3, FO_PATH)
    proceed, rpy = talk(rr(sess, fo, routed=False))
    r = ref.un_reply(un_rr(rpy, sess))
    svc = 0xdb if large else 0xd4
    ok = proceed and r['service'] == svc and r['status'] == 0 and ref.un_le(r['data'][0:4]) == o_t_id
    fo2 = ref.forward_open(large, 5, 157, o_t_id, 0x23, serial, vendor, oserial, 1, rpi + 1, ncp_, rpi + 1, ncp_, 0xa3, FO_PATH)
    proceed, rpy = talk(rr(sess, fo2, routed=False))
    r = ref.un_reply(un_rr(rpy, sess))
    ok = ok and proceed and r['service'] == svc and r['status'] != 0
    d = r['data']                                        # unsuccessful Forward Open reply: connection serial, vendor, originator serial, ...
    ok = ok and ref.un_le(d[0:2]) == serial and ref.un_le(d[2:4]) == vendor and ref.un_le(d[4:8]) == oserial
    return ok and list(device.Connection_Manager.forwards) == [(ADDR[0], ADDR[1], o_t_id)]     # the established connection is untouched


for large in (False, True):
    define(globals(), 'C14', 'forward_open_rejected_%s' % ('large' if large else 'small'), ['o_t_id', 'serial', 'vendor', 'oserial', 'rpi'],
           "return do_forward_open_rejected(%r, o_t_id, serial, vendor, oserial, rpi)" % large,
           ['0 <= o_t_id <= 0xFFFFFFFF and 0 <= serial <= 0xFFFF and 0 <= vendor <= 0xFFFF and 0 <= oserial <= 0xFFFFFFFF and 0 <= rpi < 0xFFFFFFFF'],
           tier='thorough' if large else 'quick', timeout=3000, path_timeout=600, drives=DRIVES, stubs=STUBS,
           symbolic=['O->T connection id (kept: O->T multicast), connection serial, vendor, originator serial, RPI'],
           bounds='reference-encoded Register + %s Forward Open (O->T multicast) + a second, conflicting Forward Open for the same O->T id from the same peer: the '
                  'second is answered by one Forward Open reply (service|0x80) with a non-zero CIP status carrying the connection triad; the first connection stays'
                  % ('Large' if large else 'Small'), outside='other refusal causes')


ESTABLISHED = {}


def established(large):
    """a Register + Forward Open performed ONCE, concretely (their symbolic treatment is forward_open_*); the connected obligations
    then send one request each over the established connection"""
    if large not in ESTABLISHED:
        sess, proceed, r = open_session(large)
        assert proceed and r['status'] == 0
        ESTABLISHED[large] = (sess, ref.un_le(r['data'][0:4]), dict(ucmm.UCMM.sessions), dict(device.Connection_Manager.forwards))
    sess, o_t, sessions, forwards = ESTABLISHED[large]
    ucmm.UCMM.sessions = dict(sessions)
    device.Connection_Manager.forwards = dict(forwards)
    return sess, o_t


def do_connected_read(large, seq, a, i, n):
    sim.attribute('A').value[:] = a
    sess, o_t = established(large)
    proceed, rpy = talk(unit(sess, o_t, seq, ref.read_tag([{'symbolic': 'A'}, {'element': i}], n)))
    r = un_unit(rpy, sess, o_t, seq)
    valid = n >= 1 and i + n <= N
    ok = proceed and r['service'] == 0xcc
    if valid:
        return ok and r['status'] == 0 and r['data'] == [0xc3, 0] + ref.typed(0xc3, a[i:i + n])
    return ok and r['status'] == 0xff and r['ext'] == [0x2105] and r['data'] == []


def do_connected_write(large, seq, a, i, v):
    sim.attribute('A').value[:] = a
    sess, o_t = established(large)
    proceed, rpy = talk(unit(sess, o_t, seq, ref.write_tag([{'symbolic': 'A'}, {'element': i}], 0xc3, [v])))
    r = un_unit(rpy, sess, o_t, seq)
    after = list(a)
    if i < N:
        after[i] = v
    ok = r['service'] == 0xcd and (r['status'] == 0) == (i < N)
    proceed, rpy = talk(unit(sess, o_t, (seq + 1) % 65536, ref.read_frag([{'symbolic': 'A'}], N, 0)))
    r = un_unit(rpy, sess, o_t, (seq + 1) % 65536)
    ok = ok and r['service'] == 0xd2 and r['status'] == 0 and r['data'] == [0xc3, 0] + ref.typed(0xc3, after)
    # unknown tag over the connected session: a CIP error status, the session stays up
    proceed, rpy = talk(unit(sess, o_t, 9, ref.read_tag([{'symbolic': 'nosuch'}], 1)))
    r = un_unit(rpy, sess, o_t, 9)
    return ok and proceed and r['status'] != 0 and r['service'] == 0xcc


established(False)
established(True)
AV = ['a%d' % k for k in range(N)]
APRE = " and ".join('-32768 <= %s <= 32767' % x for x in AV)
for large in (False, True):
    nm = 'large' if large else 'small'
    define(globals(), 'C14', 'connected_read_%s' % nm, ['seq'] + AV + ['i', 'n'], "return do_connected_read(%r, seq, [%s], i, n)" % (large, ", ".join(AV)),
           ['0 <= seq <= 0xFFFF', APRE, '0 <= i <= %d and 0 <= n <= %d' % (N, N + 1)], tier='quick' if not large else 'thorough',
           timeout=3000, path_timeout=600, drives=DRIVES, stubs=STUBS,
           bounds='connected (SendUnitData) Read Tag over a %s Forward Open session, reference-encoded: symbolic sequence count, tag contents, start index and '
                  'count (valid or beyond the end): addressed to the connection, sequence echoed, values of the array model or 0xFF/0x2105' % nm, outside='')
    define(globals(), 'C14', 'connected_write_%s' % nm, ['seq'] + AV + ['i', 'v'], "return do_connected_write(%r, seq, [%s], i, v)" % (large, ", ".join(AV)),
           ['0 <= seq <= 0xFFFF', APRE, '0 <= i <= %d and -32768 <= v <= 32767' % N], tier='thorough',
           timeout=3000, path_timeout=600, drives=DRIVES, stubs=STUBS,
           bounds='connected Write Tag (index inside or at the end of the tag), then connected Read Tag Fragmented of the whole tag and an unknown tag, over a %s '
                  'Forward Open session' % nm, outside='')


def do_multiread(a, b0, b1, i, n, s0):
    """unconnected bundled multi-tag read: [A[i] x n (valid or beyond the end), B, unknown tag, S]"""
    sim.attribute('A').value[:] = a
    sim.attribute('B').value[:] = [b0, b1]
    sim.attribute('S').value[:] = [s0, 1, 2]
    sess = register()
    msp = ref.multiple([ref.read_tag([{'symbolic': 'A'}, {'element': i}], n), ref.read_tag([{'symbolic': 'B'}], 2),
                        ref.read_tag([{'symbolic': 'nosuch'}], 1), ref.read_tag([{'symbolic': 'S'}], 3)])
    proceed, rpy = talk(rr(sess, msp))
    r = ref.un_reply(un_rr(rpy, sess))
    parts = [ref.un_reply(p) for p in ref.un_multiple_reply(r['data'])]
    ok = proceed and r['service'] == 0x8a and len(parts) == 4
    valid = n >= 1 and i + n <= N
    if valid:
        ok = ok and parts[0]['status'] == 0 and parts[0]['data'] == [0xc3, 0] + ref.typed(0xc3, a[i:i + n])
    else:
        ok = ok and parts[0]['status'] == 0xff and parts[0]['ext'] == [0x2105]
    ok = ok and parts[1]['status'] == 0 and parts[1]['data'] == [0xc4, 0] + ref.typed(0xc4, [b0, b1])
    ok = ok and parts[2]['status'] != 0 and parts[2]['service'] == 0xcc
    return ok and parts[3]['status'] == 0 and parts[3]['data'] == [0xc2, 0] + ref.typed(0xc2, [s0, 1, 2])


def do_large_array(v0, v1, v2, budget):
    """an array larger than one reply (reply budget Logix.MAX_BYTES scaled down): Read Tag Fragmented until status 0"""
    big = sim.attribute('BIG')
    exp = [k for k in range(30)]
    exp[0], exp[budget // 2 - 1], exp[29] = v0, v1, v2
    big.value[:] = exp
    saved = logix.Logix.MAX_BYTES
    logix.Logix.MAX_BYTES = budget
    try:
        sess = register()
        got, off, rounds = [], 0, 0
        while rounds < 8:
            rounds += 1
            proceed, rpy = talk(rr(sess, ref.read_frag([{'symbolic': 'BIG'}], 30, off)))
            r = ref.un_reply(un_rr(rpy, sess))
            if r['service'] != 0xd2 or r['status'] not in (0, 6) or r['data'][:2] != [0xc3, 0]:
                return False
            vals = ref.untyped(0xc3, r['data'][2:])
            if not vals or 2 * len(vals) > budget + 1:
                return False
            got += vals
            off += 2 * len(vals)
            if r['status'] == 0:
                break
        return got == exp and rounds == -(-60 // budget)
    finally:
        logix.Logix.MAX_BYTES = saved


for _i, _n in ((0, 5), (3, 4), (2, 1), (1, 0), (4, 1), (5, 1)):
    define(globals(), 'C14', 'unconnected_multiread_%d_%d' % (_i, _n), ['a0', 'a4', 'b0'], "return do_multiread([a0, 2, 3, 4, a4], b0, 7, %d, %d, -5)" % (_i, _n),
           ['-32768 <= a0 <= 32767 and -32768 <= a4 <= 32767 and -2**31 <= b0 < 2**31'], tier='quick' if (_i, _n) in ((0, 5), (3, 4)) else 'thorough',
           timeout=3000, path_timeout=600, drives=DRIVES, stubs=STUBS,
           bounds='reference-encoded unconnected bundled multi-tag read [A[%d] x %d (%s), B, unknown tag, S] with symbolic tag contents; every embedded reply decoded by '
                  'the reference decoder carries the values of the array model / the documented error status' % (_i, _n, 'valid' if _n >= 1 and _i + _n <= N else 'beyond the end / empty'),
           outside='other index shapes')
for _b in (20, 24, 30):
    define(globals(), 'C14', 'unconnected_large_array_budget%d' % _b, ['v0', 'v1', 'v2'], "return do_large_array(v0, v1, v2, %d)" % _b,
           ['-32768 <= v0 <= 32767 and -32768 <= v1 <= 32767 and -32768 <= v2 <= 32767'], tier='quick' if _b == 24 else 'thorough',
           timeout=3000, path_timeout=600, drives=DRIVES, stubs=STUBS,
           bounds='an INT[30] array larger than one reply (reply budget Logix.MAX_BYTES scaled down to %d bytes => %d fragments) read with reference-encoded Read Tag '
                  'Fragmented requests advancing the offset by the bytes received; symbolic values at the first element, a fragment boundary and the last element' % (_b, -(-60 // _b)),
           outside='the default 488-byte budget with a 300-element tag (same code path, 10x the tracing cost)')


# ---- pylogix (independent client implementation), in-process through a fake socket module ----------------------------------------------------
def pylogix_bridge():
    import pylogix
    import pylogix.lgx_comm

    class FakeSocket(object):
        def __init__(self, *a, **k):
            self.rx = b''
            self.source = cpppo.chainable()

        def settimeout(self, t):
            pass

        def setsockopt(self, *a):
            pass

        def connect(self, addr):
            pass

        def close(self):
            pass

        def send(self, data):
            self.source.chain(list(data))
            while self.source.peek() is not None:
                d = cpppo.dotdict()
                with parser.enip_machine(context='enip', terminal=True) as m:
                    for mch, sta in m.run(path='request', source=self.source, data=d):
                        if sta is None and self.source.peek() is None:
                            raise AssertionError("partial frame from client")
                if logix.process(ADDR, data=d, tags=TAGS):
                    self.rx += bytes(parser.enip_encode(d.response.enip))
            return len(data)

        def recv(self, n):
            out, self.rx = self.rx[:n], self.rx[n:]
            return out
    pylogix.lgx_comm.socket = types.SimpleNamespace(
        socket=FakeSocket, timeout=TimeoutError, error=OSError, getaddrinfo=lambda host, port: [(None, None, None, None, (host, port))],
        AF_INET=2, SOCK_STREAM=1)
    return pylogix


try:
    PYLOGIX = pylogix_bridge()
except ImportError:
    PYLOGIX = None


def do_pylogix(a, i, v, n):
    sim.RANDOM.n = 1000
    ucmm.UCMM.sessions = {}
    device.Connection_Manager.forwards = {}
    sim.attribute('A').value[:] = a
    sim.attribute('B').value[:] = [5, 6]
    ok = True
    with PYLOGIX.PLC('127.0.0.1') as comm:
        w = comm.Write('A[%d]' % i, [v])
        after = list(a)
        after[i] = v
        ok = ok and w.Status == 'Success'
        r = comm.Read('A[0]', N)
        ok = ok and r.Status == 'Success' and list(r.Value) == after
        r = comm.Read(['A[%d]' % i, 'B', 'A[%d]' % (N - 1)])
        ok = ok and [x.Value for x in r] == [v, 5, after[N - 1]]
        r = comm.Read('A[%d]' % (N - 1), n)
        ok = ok and ((r.Status == 'Success') == (n <= 1))
        r = comm.Read('nosuch')
        ok = ok and r.Status != 'Success'
    return ok and not device.Connection_Manager.forwards


if PYLOGIX is not None:
    define(globals(), 'C14', 'pylogix_session', AV + ['i', 'v', 'n'], "return do_pylogix([%s], i, v, n)" % ", ".join(AV),
           [" and ".join('-32768 <= %s <= 32767' % x for x in AV), '0 <= i <= %d and -32768 <= v <= 32767 and 1 <= n <= 3' % (N - 1)],
           tier='thorough', timeout=9000, path_timeout=1800, drives=DRIVES + ['pylogix 1.1.6 PLC.Read/Write (independent client implementation) in-process'],
           stubs=STUBS + ['pylogix.lgx_comm.socket -> in-process fake socket module'],
           bounds='pylogix session (register, Forward Open, write, array read, multi-read, out-of-range read, unknown tag, close) with symbolic tag contents, '
                  'index and value; ATTEMPT: reported inconclusive (never success) if CrossHair cannot close it', outside='TCP')
