"""C06 -- exactly one matching reply per request, delivered in request order."""
from vrt import glue, sim, srv, ref_cip as ref
from vrt.ob import define, obligation, concretize
import cpppo
from cpppo.server.enip import parser, device, logix, ucmm, main as enip_main

glue.activate(cpppo.automata, cpppo.dotdict, parser, device, logix, ucmm, enip_main)
srv.install_stubs()
TAGS = sim.setup({'A': (parser.INT, 4), 'B': (parser.DINT, 2, '@0x401/1/1')})
ucmm.UCMM.parser = parser.CIP()             # rebuilt after de-logging (its unrec_CIP closure formats eagerly)

DRIVES = ['cpppo.server.enip.logix.process', 'cpppo.server.enip.ucmm.UCMM.request', 'cpppo.server.enip.device.Connection_Manager.request',
          'cpppo.server.enip.device.Message_Router.request', 'cpppo.server.enip.device.Message_Router.route', 'cpppo.server.enip.logix.Logix.request',
          'cpppo.server.enip.device.Object.request', 'cpppo.server.enip.parser.CIP (machine + produce)', 'cpppo.server.enip.parser.enip_machine',
          'cpppo.server.enip.parser.enip_encode']
STUBS = ['random (session handles) -> harness stream', 'misc.timer -> counter', 'network.recv / conn -> in-process']

RR = [{'port': 1, 'link': 0}]


def req_of(kind, v):
    """-> (request bytes from the REFERENCE encoder, expected reply service, expected CIP status is zero?)"""
    a = [{'symbolic': 'A'}]
    if kind == 'read_tag':
        return ref.read_tag(a + [{'element': 1}], 2), 0xcc, True
    if kind == 'read_frag':
        return ref.read_frag(a, 4, 0), 0xd2, True
    if kind == 'write_tag':
        return ref.write_tag(a + [{'element': 2}], 0xc3, [v]), 0xcd, True
    if kind == 'write_frag':
        return ref.write_frag(a, 0xc3, [v], 1, 0), 0xd3, True
    if kind == 'get_attribute_single':
        return ref.get_attribute_single([{'class': 0x401}, {'instance': 1}, {'attribute': 1}]), 0x8e, True
    if kind == 'set_attribute_single':
        return ref.set_attribute_single([{'class': 0x401}, {'instance': 1}, {'attribute': 1}], ref.le(v, 4) + ref.le(5, 4)), 0x90, True
    if kind == 'get_attributes_all':
        return ref.get_attributes_all([{'class': 1}, {'instance': 1}]), 0x81, True
    if kind == 'multiple':
        return ref.multiple([ref.read_tag(a, 1), ref.write_tag(a + [{'element': 3}], 0xc3, [v])]), 0x8a, True
    if kind == 'read_unknown_tag':
        return ref.read_frag([{'symbolic': 'nosuch'}], 1, 0), 0xd2, False
    if kind == 'read_beyond_end':
        return ref.read_tag(a + [{'element': 3}], 2), 0xcc, False
    if kind == 'write_wrong_type':
        return ref.write_tag(a, 0xc4, [v]), 0xcd, False
    raise ValueError(kind)


KINDS = ['read_tag', 'read_frag', 'write_tag', 'write_frag', 'get_attribute_single', 'set_attribute_single', 'get_attributes_all', 'multiple',
         'read_unknown_tag', 'read_beyond_end', 'write_wrong_type']


def rr_frame(session, ctx, options, req, routed=True):
    body = ref.unconnected_send(req, RR) if routed else req
    return ref.encap(0x6f, session, 0, ctx, options, ref.send_rr_data([(0, []), (0xb2, body)], 0, 5))


def decode_reply(rpy):
    e = ref.un_encap([x for x in rpy])
    ok = e['rest'] == []
    if e['command'] != 0x6f or e['status'] != 0:
        return ok, e, None
    items, rest = ref.un_cpf(e['payload'][6:])
    ok = ok and rest == [] and len(items) == 2 and items[0] == (0, [])        # null address item + one data item
    ok = ok and items[1][0] == 0xb2
    return ok, e, ref.un_reply(items[1][1])


def do_one(kind, session, c0, c7, options, v, routed):
    if kind not in ('write_tag', 'multiple'):
        v = 1234            # the written value only matters to C05/C03; kept symbolic for two kinds
    sim.attribute('A').value[:] = [1, 2, 3, 4]
    req, svc, good = req_of(kind, v)
    ctx = [c0, 1, 2, 3, 4, 5, 6, c7]
    proceed, rpy, data = sim.process(rr_frame(session, ctx, options, req, routed), tags=TAGS)
    if not proceed or rpy is None:
        return False
    ok, e, r = decode_reply(rpy)
    ok = ok and e['session'] == session and e['context'] == ctx and e['options'] == options and e['command'] == 0x6f
    if kind == 'read_unknown_tag' and routed:
        # an unknown tag inside an Unconnected Send cannot be routed: one frame with a non-zero encapsulation status
        return ok and (e['status'] != 0 or (r is not None and r['service'] == svc and r['status'] != 0))
    ok = ok and r is not None and r['service'] == svc                                # the request's service with the reply bit
    return ok and ((r['status'] in (0, 6)) == good)


for kind in KINDS:
    for routed in (True, False):
        define(globals(), 'C06', 'one_reply_%s%s' % (kind, '' if routed else '_simple'), ['session', 'c0', 'c7', 'options', 'v'],
               "return do_one(%r, session, c0, c7, options, v, %r)" % (kind, routed),
               ['0 <= session <= 0xFFFFFFFF and 0 <= c0 <= 255 and 0 <= c7 <= 255 and 0 <= options <= 0xFFFFFFFF and -32768 <= v <= 32767'],
               tier='quick' if routed or kind in ('read_tag', 'multiple') else 'thorough', timeout=900, path_timeout=120, drives=DRIVES, stubs=STUBS,
               symbolic=['session handle (32 bit)', 'c0, c7: sender context bytes', 'options (32 bit)', 'v: a written value'],
               bounds='one %s request (%s) encoded by the reference encoder -> real logix.process: exactly one reply frame with the same sender '
                      'context, session handle and options, SendRRData framing (null address item + one data item), service = request|0x80' % (
                          kind, 'inside an Unconnected Send with route path 1/0' if routed else 'simple, no Unconnected Send wrapper'),
               outside='ordering across threads')


def do_fo_rejected(session, c0, o_t_id, rpi):
    """a Forward Open the Connection Manager REFUSES (a second one for an O->T connection id this peer already holds; O->T multicast keeps the
    originator's id) still gets exactly one reply: the request's service with the reply bit, a CIP error status, same context/session"""
    device.Connection_Manager.forwards = {}
    ncp_ = ref.ncp(500, True, 0, 1, False, False)
    path = [{'port': 1, 'link': 0}, {'class': 2}, {'instance': 1}]
    ctx = [c0, 1, 2, 3, 4, 5, 6, 7]
    ok = True
    for k in (0, 1):
        fo = ref.forward_open(False, 5, 157, o_t_id, 0x22 + k, 3, 4, 5, 1, rpi + k, ncp_, rpi + k, ncp_, 0xa3, path)
        proceed, rpy, data = sim.process(rr_frame(session, ctx, 0, fo, routed=False), tags=TAGS)
        if not proceed or rpy is None:
            return False
        good, e, r = decode_reply(rpy)
        ok = ok and good and e['session'] == session and e['context'] == ctx and e['status'] == 0 and r is not None
        ok = ok and r['service'] == 0xd4 and (r['status'] == 0) == (k == 0)
    device.Connection_Manager.forwards = {}
    return ok


define(globals(), 'C06', 'one_reply_forward_open_refused', ['session', 'c0', 'o_t_id', 'rpi'], "return do_fo_rejected(session, c0, o_t_id, rpi)",
       ['0 <= session <= 0xFFFFFFFF and 0 <= c0 <= 255 and 0 <= o_t_id <= 0xFFFFFFFF and 0 <= rpi < 0xFFFFFFFF'], timeout=1800, path_timeout=300, drives=DRIVES, stubs=STUBS,
       symbolic=['session handle', 'c0: sender context byte', 'O->T connection id', 'RPI'],
       bounds='a Forward Open (accepted) followed by a conflicting Forward Open for the same O->T id from the same peer (refused): each gets exactly one reply frame with '
              'the same sender context and session, service 0x54|0x80; status 0 for the first, a CIP error status for the second', outside='other refusal causes')


def do_unsupported_service(svc, session, c0):
    req = [svc] + ref.epath([{'class': 2}, {'instance': 1}])
    ctx = [c0, 9, 9, 9, 9, 9, 9, 9]
    proceed, rpy, data = sim.process(rr_frame(session, ctx, 0, req), tags=TAGS)
    if not proceed or rpy is None:
        return False
    ok, e, r = decode_reply(rpy)
    ok = ok and e['session'] == session and e['context'] == ctx
    return ok and (e['status'] != 0 or (r is not None and r['service'] == svc | 0x80 and r['status'] != 0))


define(globals(), 'C06', 'unsupported_service_code', ['svc', 'session', 'c0'], "return do_unsupported_service(svc, session, c0)",
       ['0x20 <= svc <= 0x4b and 0 <= session <= 0xFFFFFFFF and 0 <= c0 <= 255'], timeout=1800, path_timeout=120, drives=DRIVES, stubs=STUBS,
       bounds='service codes 0x20..0x4B (none supported by the Message Router) addressed to @2/1: answered by exactly one frame carrying an error '
              '(CIP error status with service|0x80, or non-zero encapsulation status)', outside='')


def do_unsupported_command(command, session, c0, p0):
    ctx = [c0, 8, 8, 8, 8, 8, 8, 8]
    frame = ref.encap(command, session, 0, ctx, 0, [p0])
    try:
        proceed, rpy, data = sim.process(frame, tags=TAGS)
    except Exception:
        return True                       # the connection is ended (handled per connection): no reply for this frame
    if not proceed:
        return False
    e = ref.un_encap([x for x in rpy])
    return e['status'] != 0 and e['context'] == ctx and e['session'] == session and e['command'] == command


for lo, hi in ((0x0005, 0x0062), (0x0071, 0xFFFF)):
    define(globals(), 'C06', 'unsupported_encapsulation_command_%04x_%04x' % (lo, hi), ['command', 'session', 'c0', 'p0'],
           "return do_unsupported_command(command, session, c0, p0)",
           ['%d <= command <= %d' % (lo, hi), '0 <= session <= 0xFFFFFFFF and 0 <= c0 <= 255 and 0 <= p0 <= 255'],
           timeout=900, path_timeout=120, drives=DRIVES, stubs=STUBS,
           bounds='every unsupported encapsulation command 0x%04x..0x%04x with a 1-byte payload: one frame with non-zero encapsulation status echoing '
                  'context and session, or the request processor raises (the connection handler then closes that connection)' % (lo, hi), outside='')


def do_register(r0, r1, c0, version, options):
    sim.RANDOM.stream = [r0, r1]
    ucmm.UCMM.sessions = {}
    ctx = [c0, 7, 7, 7, 7, 7, 7, 7]
    proceed, rpy, data = sim.process(ref.encap(0x65, 0, 0, ctx, 0, ref.register(version, options)), tags=TAGS)
    sim.RANDOM.stream = []
    if not proceed or rpy is None:
        return False
    e = ref.un_encap([x for x in rpy])
    ok = e['command'] == 0x65 and e['status'] == 0 and e['context'] == ctx and e['payload'] == ref.register(version, options)
    ok = ok and e['session'] != 0 and e['session'] == (r0 if r0 else (r1 if r1 else e['session']))
    # Unregister: nothing is sent and the session ends
    proceed2, rpy2, data2 = sim.process(ref.encap(0x66, e['session'], 0, ctx, 0, []), tags=TAGS)
    return ok and not proceed2 and rpy2 is None


define(globals(), 'C06', 'register_unregister', ['r0', 'r1', 'c0', 'version', 'options'], "return do_register(r0, r1, c0, version, options)",
       ['0 <= r0 <= 0xFFFFFFFF and 0 <= r1 <= 0xFFFFFFFF and 0 <= c0 <= 255 and 0 <= version <= 0xFFFF and 0 <= options <= 0xFFFF'],
       timeout=900, path_timeout=120, drives=DRIVES, stubs=STUBS,
       symbolic=['r0, r1: the values the random source returns (arbitrary, including 0)', 'c0', 'version, options'],
       bounds='Register Session for ANY values returned by the random source (incl. 0): the reply carries a non-zero session handle, echoes context, '
              'version and options; Unregister Session returns nothing and ends the session', outside='')


# ---- per connection: k frames under arbitrary chunking, replies in request order ----------------------------------------------------------
def do_sequence(kinds, ctxs, v, cuts, interesting=True):
    sim.RANDOM.n = 1000
    sim.attribute('A').value[:] = [1, 2, 3, 4]
    frames = [ref.encap(0x65, 0, 0, [0] * 8, 0, ref.register())]
    expect = []
    for kind, c in zip(kinds, ctxs):
        req, svc, good = req_of(kind, v)
        frames.append(rr_frame(1001, [c] * 8, 0, req))
        expect.append((c, svc, good))
    stream = [x for f in frames for x in f]
    if interesting:
        # frame boundaries -1/0/+1, the header/payload boundary of each frame and a few interior points
        cand, at = [0], 0
        for f in frames:
            cand += [at + 1, at + 24, at + len(f) - 1, at + len(f)]
            at += len(f)
        cand = sorted(set(c for c in cand if 0 <= c <= len(stream)))
        pos = sorted(cand[concretize(c, len(cand))] for c in cuts)
    else:
        pos = sorted(concretize(c, len(stream) + 1) for c in cuts)
    chunks, at = [], 0
    for p in pos:
        chunks.append(bytes(bytearray(stream[at:p])))
        at = p
    chunks.append(bytes(bytearray(stream[at:])))
    chunks = [c for c in chunks if c]
    sent, closed, err, calls, leaked = srv.serve(chunks, tags=TAGS)
    ok = err is None and closed == 1 and not leaked and len(sent) == 1 + len(kinds) and calls == 1 + len(kinds)
    if not ok:
        return False
    for rpy, (c, svc, good) in zip(sent[1:], expect):
        dok, e, r = decode_reply(rpy)
        ok = ok and dok and e['context'] == [c] * 8 and e['session'] == 1001 and r is not None and r['service'] == svc
        ok = ok and ((r['status'] in (0, 6)) == good)
    return ok


SEQS = [(['write_tag', 'read_tag'], 'quick'), (['read_beyond_end', 'multiple'], 'quick'), (['get_attribute_single', 'write_wrong_type', 'read_frag'], 'thorough'),
        (['multiple', 'set_attribute_single', 'read_tag'], 'thorough')]
for kinds, tier in SEQS:
    cs = ['c%d' % i for i in range(len(kinds))]
    nm = "_".join(k.split('_')[0] + k.split('_')[-1][:3] for k in kinds)
    define(globals(), 'C06', 'pipelined_onecut_%s' % nm, cs + ['v', 'cut0'], "return do_sequence(%r, [%s], v, [cut0], True)" % (kinds, ", ".join(cs)),
           [" and ".join('0 <= %s <= 255' % c for c in cs), '-32768 <= v <= 32767 and 0 <= cut0'],
           tier=tier, timeout=3000, path_timeout=300, drives=DRIVES + ['cpppo.server.enip.main.enip_srv_tcp'], stubs=STUBS,
           symbolic=['c*: the sender context of each request', 'v', 'cut0: one chunk boundary chosen among ~12 structurally interesting offsets (first byte, header/payload boundary, last byte and end of every frame)'],
           bounds='Register + %r written to the connection in two chunks cut at every structurally interesting offset (or coalesced) through the real enip_srv_tcp: '
                  'one reply per request, in request order, each echoing its own context and answering its own service' % kinds, outside='every byte offset (thorough tier)')
    define(globals(), 'C06', 'pipelined_%s' % nm, cs + ['v', 'cut0', 'cut1'],
           "return do_sequence(%r, [%s], v, [cut0, cut1], False)" % (kinds, ", ".join(cs)),
           [" and ".join('0 <= %s <= 255' % c for c in cs), '-32768 <= v <= 32767 and 0 <= cut0 and 0 <= cut1'],
           tier='thorough', timeout=20000, path_timeout=300, drives=DRIVES + ['cpppo.server.enip.main.enip_srv_tcp'], stubs=STUBS,
           symbolic=['c*: the sender context of each request', 'v', 'cut0, cut1: EVERY pair of chunk boundaries of the byte stream (requests written before any reply is read)'],
           bounds='Register + %r written to the connection under every 3-way chunking (all coalesced .. arbitrary cuts) through the real enip_srv_tcp: one '
                  'reply per request, in request order, each echoing its own context and answering its own service' % kinds, outside='more frames; other threads')
