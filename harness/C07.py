"""C07 -- a Multiple Service Packet is equivalent to its requests issued one by one."""
import itertools

from vrt import glue, sim, ref_cip as ref
from vrt.ob import define
import cpppo
from cpppo.server.enip import parser, device, logix

glue.activate(cpppo.automata, cpppo.dotdict, parser, device, logix)
N = 4
TAGS = sim.setup({'A': (parser.INT, N), 'B': (parser.DINT, 2, '@0x401/1/1')})
LGX = device.lookup(2, 1)

DRIVES = ['cpppo.server.enip.device.Message_Router.request', 'cpppo.server.enip.device.Message_Router.produce', 'cpppo.server.enip.device.Message_Router.route',
          'cpppo.server.enip.logix.Logix.request', 'cpppo.server.enip.logix.Logix.reply_elements', 'cpppo.server.enip.logix.Logix.produce',
          'cpppo.server.enip.device.Object.request', 'cpppo.server.enip.device.state_multiple_service.terminate', 'cpppo.automata.dfa_post',
          'cpppo.server.enip.device.Attribute.__getitem__/__setitem__']


def member(kind, i, n, v):
    d = cpppo.dotdict()
    if kind == 'rd':                                   # Read Tag A[i] x n      (fails when i + n > len)
        d.path = sim.tagpath('A', i)
        d.read_tag = {'elements': n}
    elif kind == 'rf':                                 # Read Tag Fragmented A[i] x n
        d.path = sim.tagpath('A', i)
        d.read_frag = {'elements': n, 'offset': 0}
    elif kind == 'wr':                                 # Write Tag A[i] = v
        d.path = sim.tagpath('A', i)
        d.write_tag = {'type': 0xc3, 'data': [v]}
    elif kind == 'wf':                                 # Write Tag Fragmented A[i] = v, v+1 (n elements declared)
        d.path = sim.tagpath('A', i)
        d.write_frag = {'type': 0xc3, 'elements': n, 'offset': 0, 'data': [v]}
    elif kind == 'wt':                                 # type mismatch: DINT into the INT tag
        d.path = sim.tagpath('A', i)
        d.write_tag = {'type': 0xc4, 'data': [v]}
    elif kind == 'gas':                                # Get Attribute Single of B
        d.path = sim.numpath(0x401, 1, 1)
        d.get_attribute_single = True
    elif kind == 'sas':                                # Set Attribute Single of B
        d.path = sim.numpath(0x401, 1, 1)
        d.set_attribute_single = {'data': ref.le(v, 4) + ref.le(i, 4)}
    elif kind == 'unk':                                # unknown tag
        d.path = sim.tagpath('nosuch', i)
        d.read_tag = {'elements': n}
    return d


def outcome(d):
    """what a client can observe of one (embedded) reply"""
    out = [d.get('service'), d.get('status'), [x for x in d.get('input', [])]]
    if 'status_ext' in d:
        out.append(list(d.status_ext.data))
    for ctx in ('read_tag', 'read_frag'):
        if ctx in d and hasattr(d[ctx], 'get') and 'data' in d[ctx]:
            out.append((d[ctx].type, list(d[ctx].data)))
    if 'get_attribute_single' in d and hasattr(d.get_attribute_single, 'get'):
        out.append(list(d.get_attribute_single.data))
    return out


def state():
    return list(sim.attribute('A').value), list(sim.attribute('B').value)


def set_state(a, b):
    sim.attribute('A').value[:] = a
    sim.attribute('B').value[:] = b


def do_bundle(kinds, a, b, params):
    # run A: the bundle
    set_state(a, b)
    bundle = cpppo.dotdict()
    bundle.multiple = {'request': [member(k, *p) for k, p in zip(kinds, params)]}
    LGX.request(bundle)
    got = [outcome(r) for r in bundle.multiple.request]
    after_bundle = state()
    # run B: the same requests one by one, in order, from an equal state
    set_state(a, b)
    exp = []
    for k, p in zip(kinds, params):
        r = member(k, *p)
        LGX.request(r)
        exp.append(outcome(r))
    after_single = state()
    ok = bundle.status == 0 and bundle.service == 0x8a and got == exp and after_bundle == after_single
    # the bundle's own framing: offsets locate each embedded reply exactly
    raw = [x for x in bundle.input]
    rp = ref.un_reply(raw)
    parts = ref.un_multiple_reply(rp['data'])
    ok = ok and rp['status'] == 0 and len(parts) == len(kinds) and parts == [e[2] for e in exp]
    n = len(kinds)
    offs = [ref.un_le(rp['data'][2 + 2 * k:4 + 2 * k]) for k in range(n)]
    at = 2 + 2 * n
    for k in range(n):
        ok = ok and offs[k] == at
        at += len(exp[k][2])
    return ok


AV = ['a%d' % i for i in range(N)]


def define_bundle(kinds, tier, timeout=1500):
    params = []
    pres = [" and ".join('-32768 <= %s <= 32767' % a for a in AV), '-2**31 <= b0 < 2**31 and -2**31 <= b1 < 2**31']
    call = []
    for k, kind in enumerate(kinds):
        i, n, v = 'i%d' % k, 'n%d' % k, 'v%d' % k
        params += [i, n, v]
        pres.append('0 <= %s <= %d and 0 <= %s <= %d and -32768 <= %s <= 32767' % (i, N, n, N + 1, v))
        call.append('(%s, %s, %s)' % (i, n, v))
    define(globals(), 'C07', 'bundle_' + "_".join(kinds), AV + ['b0', 'b1'] + params,
           "return do_bundle(%r, [%s], [b0, b1], [%s])" % (list(kinds), ", ".join(AV), ", ".join(call)), pres,
           tier=tier, timeout=timeout, path_timeout=300, drives=DRIVES,
           symbolic=['a0..a3, b0, b1: ARBITRARY initial tag state', 'per member: start index 0..len, element count 0..len+1 (so valid and out-of-range '
                     'requests occur), written value'],
           bounds='bundle %r on tags A=INT[4], B=DINT[2]@0x401/1/1 from any initial state: per-member (service, status, extended status, type, data, '
                  'reply bytes) and the final tag state equal the one-by-one run; bundle status 0; offset table = 2+2N then + previous reply '
                  'length; a failing member changes neither neighbours nor framing' % (list(kinds),),
           outside='more than %d members' % len(kinds))


QUICK2 = [('wr', 'rd'), ('rd', 'wr'), ('wr', 'wr'), ('wt', 'rd'), ('gas', 'sas'), ('unk', 'wr'), ('rf', 'wf'), ('sas', 'gas')]
for ks in QUICK2:
    define_bundle(ks, 'quick')
define_bundle(('rd',), 'quick')
define_bundle(('wt',), 'quick')
ALLK = ['rd', 'rf', 'wr', 'wf', 'wt', 'gas', 'sas', 'unk']
for ks in itertools.product(ALLK, ALLK):
    if ks not in QUICK2:
        define_bundle(ks, 'thorough')
for ks in [('wr', 'rd', 'wr'), ('rd', 'wt', 'rf'), ('sas', 'wr', 'gas'), ('unk', 'wf', 'rd'), ('wr', 'wr', 'rd')]:
    define_bundle(ks, 'thorough', timeout=3000)


# ---- through the bytes: the bundle request is parsed by the real Multiple Service Packet machinery -------------------------------------
def do_bundle_bytes(a, i0, n0, v1, i1):
    set_state(a, [5, 6])
    m0 = ref.read_tag([{'symbolic': 'A'}, {'element': i0}], n0)
    m1 = ref.write_tag([{'symbolic': 'A'}, {'element': i1}], 0xc3, [v1])
    m2 = ref.read_frag([{'symbolic': 'A'}], N, 0)
    req = ref.multiple([m0, m1, m2])
    frame = ref.encap(0x6f, 77, 0, [1] * 8, 0, ref.send_rr_data([(0, []), (0xb2, ref.unconnected_send(req, [{'port': 1, 'link': 0}]))]))
    proceed, rpy, data = sim.process(frame, tags=TAGS)
    e = ref.un_encap([x for x in rpy])
    items, _ = ref.un_cpf(e['payload'][6:])
    rp = ref.un_reply(items[1][1])
    parts = [ref.un_reply(p) for p in ref.un_multiple_reply(rp['data'])]
    ok = proceed and e['status'] == 0 and rp['service'] == 0x8a and rp['status'] == 0 and len(parts) == 3
    # model
    rd_ok = n0 >= 1 and i0 + n0 <= N
    wr_ok = i1 < N
    after = list(a)
    if wr_ok:
        after[i1] = v1
    ok = ok and parts[0]['service'] == 0xcc and (parts[0]['status'] == 0) == rd_ok
    if rd_ok:
        ok = ok and parts[0]['data'] == [0xc3, 0] + ref.typed(0xc3, a[i0:i0 + n0])
    ok = ok and parts[1]['service'] == 0xcd and (parts[1]['status'] == 0) == wr_ok
    ok = ok and parts[2]['service'] == 0xd2 and parts[2]['status'] == 0 and parts[2]['data'] == [0xc3, 0] + ref.typed(0xc3, after)
    return ok and list(sim.attribute('A').value) == after


for _i0, _n0, _i1 in ((0, 2, 1), (3, 2, 0), (1, 3, 4), (0, 4, 3), (2, 0, 2), (4, 1, 1)):
  define(globals(), 'C07', 'bundle_through_bytes_%d_%d_%d' % (_i0, _n0, _i1), AV + ['v1'], "return do_bundle_bytes([%s], %d, %d, v1, %d)" % (", ".join(AV), _i0, _n0, _i1),
       [" and ".join('-32768 <= %s <= 32767' % a for a in AV), '-32768 <= v1 <= 32767'],
       tier='quick' if (_i0, _n0, _i1) in ((0, 2, 1), (3, 2, 0), (1, 3, 4)) else 'thorough', timeout=1800, path_timeout=300, drives=DRIVES + ['cpppo.server.enip.logix.process', 'cpppo.server.enip.ucmm.UCMM.request'],
       bounds='a Multiple Service Packet [Read Tag A[%d] x %d, Write Tag A[%d]=v1, Read Tag Fragmented A[0-3]] encoded by the reference encoder, '
              'through the real frame/CPF/Unconnected Send/MSP parsers and request handlers; embedded replies decoded by the reference decoder: each '
              'member (valid or out of range) gets its own reply in order, the last read observes exactly the effect of the write' % (_i0, _n0, _i1), outside='other index shapes')


# ---- bundle vs. one-by-one under a scaled reply-size budget (Logix.MAX_BYTES is user alterable) -----------------------------------------------
def do_bundle_budget(a, budget, n0, n1, i1):
    saved = logix.Logix.MAX_BYTES
    logix.Logix.MAX_BYTES = budget
    try:
        return do_bundle(['rf', 'rf', 'rd'], a, [5, 6], [(0, n0, 0), (i1, n1, 0), (0, N, 0)])
    finally:
        logix.Logix.MAX_BYTES = saved


for _b in (1, 2, 3, 4, 5, 6, 8, 10, 12, 14, 16, 18, 20, 24):
  for _n0 in (1, 2, 3, 4):
    define(globals(), 'C07', 'bundle_reads_under_budget_%d_first%d' % (_b, _n0), AV + ['n1', 'i1'], "return do_bundle_budget([%s], %d, %d, n1, i1)" % (", ".join(AV), _b, _n0),
       [" and ".join('-32768 <= %s <= 32767' % a for a in AV), '1 <= n1 <= %d and 0 <= i1 <= %d' % (N, N - 1)],
       tier='quick' if (_b, _n0) in ((4, 2), (12, 1), (12, 3), (16, 2), (16, 3)) else 'thorough', timeout=3000, path_timeout=300, drives=DRIVES,
       symbolic=['n1, i1: count and start of the second read', 'a0..a3'],
       bounds='bundle [Read Tag Fragmented A[0] x %d, Read Tag Fragmented A[i1] x n1, Read Tag A[0-3]] with the reply budget Logix.MAX_BYTES scaled down to %d bytes: each '
              'embedded reply (status 0x00/0x06, data) equals the reply of the same request issued alone -- bundling does not shrink or grow a member\'s fragment' % (_n0, _b),
       outside='')
