"""C11 -- regular-expression machines accept exactly the expression's language (automata.py from_regex / regex*)."""
import itertools

from vrt import glue
from vrt.ob import define, concretize
import cpppo

glue.activate(cpppo.automata, cpppo.dotdict)

DRIVES = ['cpppo.automata.state.from_regex (machines built from the expression by the real translation of the greenery fsm)',
          'cpppo.automata.regex_bytes / regex (machine)', 'cpppo.automata.state.__getitem__ (exact, wildcard, no-input order)',
          'cpppo.automata.state.run', 'cpppo.automata.state.transition', 'cpppo.automata.dfa_base.delegate', 'cpppo.automata.state_input.process']

# ---- tiny regex AST + Brzozowski-derivative matcher (the oracle; independent of greenery) ----------------------
A, B = 97, 98


def nullable(r):
    t = r[0]
    if t == 'eps':
        return True
    if t in ('nul', 'set', 'nset', 'any'):
        return False
    if t == 'cat':
        return nullable(r[1]) and nullable(r[2])
    if t == 'alt':
        return nullable(r[1]) or nullable(r[2])
    if t == 'star':
        return True
    raise ValueError(t)


def cat(a, b):
    if a[0] == 'nul' or b[0] == 'nul':
        return ('nul',)
    if a[0] == 'eps':
        return b
    if b[0] == 'eps':
        return a
    return ('cat', a, b)


def alt(a, b):
    if a[0] == 'nul':
        return b
    if b[0] == 'nul':
        return a
    return ('alt', a, b)


def deriv(r, c):
    t = r[0]
    if t in ('eps', 'nul'):
        return ('nul',)
    if t == 'set':
        return ('eps',) if any(c == x for x in r[1]) else ('nul',)
    if t == 'nset':
        return ('nul',) if any(c == x for x in r[1]) else ('eps',)
    if t == 'any':
        return ('eps',)
    if t == 'cat':
        d = cat(deriv(r[1], c), r[2])
        return alt(d, deriv(r[2], c)) if nullable(r[1]) else d
    if t == 'alt':
        return alt(deriv(r[1], c), deriv(r[2], c))
    if t == 'star':
        return cat(deriv(r[1], c), r)
    raise ValueError(t)


def oracle(r, bs):
    """(length of the longest prefix that can still be extended to a sentence, whether that prefix is a sentence)"""
    n = 0
    for c in bs:
        d = deriv(r, c)
        if d[0] == 'nul':
            break
        r = d
        n += 1
    return n, nullable(r)


# ---- expressions: (AST, source text in the supported syntax) ---------------------------------------------------------
def rep(r, lo, hi):
    out = ('eps',)
    for k in range(hi - lo):
        out = alt(('eps',), cat(r, out))
    for k in range(lo):
        out = cat(r, out)
    return out


ATOMS = [(('set', (A,)), 'a'), (('set', (B,)), 'b'), (('any',), '.'), (('set', (A, B)), '[ab]'), (('nset', (A,)), '[^a]')]


def paren(s):
    return s if len(s) == 1 or (s[0] == '[' and s.endswith(']') and s.count('[') == 1) or (s[0] == '(' and s.endswith(')') and _balanced(s[1:-1])) else '(' + s + ')'


def _balanced(s):
    d = 0
    for ch in s:
        d += ch == '('
        d -= ch == ')'
        if d < 0:
            return False
    return d == 0


def build(nops):
    """all (ast, text) with exactly nops operators"""
    if nops == 0:
        return list(ATOMS)
    out = []
    for (r, s) in build(nops - 1):
        p = paren(s)
        out.append((('star', r), p + '*'))
        out.append((cat(r, ('star', r)) if False else ('cat', r, ('star', r)), p + '+'))
        out.append((alt(('eps',), r) if False else ('alt', ('eps',), r), p + '?'))
        out.append((rep(r, 1, 2), p + '{1,2}'))
        out.append((rep(r, 0, 2), p + '{0,2}'))
        out.append((rep(r, 2, 2), p + '{2}'))
    for k in range(nops):
        for (r1, s1) in build(k):
            for (r2, s2) in build(nops - 1 - k):
                out.append((('cat', r1, r2), paren(s1) + paren(s2)))
                out.append((('alt', r1, r2), '(' + s1 + '|' + s2 + ')'))
    return out


CURATED = [
    (('cat', ('set', (A,)), ('cat', ('star', ('alt', ('set', (B,)), ('set', (99,)))), ('set', (100,)))), 'a(b|c)*d'),
    (('star', ('any',)), '.*'),
    (('cat', ('star', ('nset', (0,))), ('eps',)), '[^\x00]*'),
    (('cat', ('set', (A,)), ('star', ('set', (A,)))), 'a+'),
    (('cat', ('star', ('set', (A,))), ('set', (B,))), 'a*b'),
    (('alt', ('cat', ('set', (A,)), ('set', (B,))), ('set', (A,))), '(ab|a)'),
    (rep(('cat', ('set', (A,)), ('set', (B,))), 1, 2), '(ab){1,2}'),
    (('cat', ('alt', ('eps',), ('set', (A,))), ('set', (B,))), 'a?b'),
    (('cat', ('nset', (A,)), ('star', ('set', (A,)))), '[^a]a*'),
    (('cat', ('any',), ('cat', ('any',), ('set', (A,)))), '..a'),
    (('cat', ('set', (A,)), ('alt', ('set', (B,)), ('cat', ('set', (B,)), ('set', (B,))))), 'a(b|bb)'),
    (('star', ('cat', ('set', (A,)), ('set', (B,)))), '(ab)*'),
    (('cat', ('star', ('set', (A, B))), ('set', (A,))), '[ab]*a'),
    (('alt', ('set', (A,)), ('cat', ('set', (B,)), ('star', ('any',)))), '(a|b.*)'),
    (('cat', ('set', (48, 49, 50)), ('star', ('set', (48, 49, 50)))), '[0-2]+'),
    (rep(('set', (A,)), 2, 3), 'a{2,3}'),
    (('cat', ('set', (A,)), ('cat', ('alt', ('eps',), ('set', (B,))), ('set', (A,)))), 'ab?a'),
    (('cat', ('star', ('nset', (A,))), ('cat', ('set', (A,)), ('set', (A,)))), '[^a]*aa'),
    (('alt', ('cat', ('set', (A,)), ('star', ('set', (B,)))), ('cat', ('set', (B,)), ('star', ('set', (A,))))), '(ab*|ba*)'),
    (('cat', ('any',), ('star', ('set', (B,)))), '.b*'),
]

# multi-byte symbols (regex_bytes): e-acute = C3 A9, euro = E2 82 AC; the machine works on the UTF-8 bytes
MB = [
    (('cat', ('set', (0xC3,)), ('set', (0xA9,))), u'é'),
    (('cat', ('set', (A,)), ('cat', ('cat', ('set', (0xE2,)), ('cat', ('set', (0x82,)), ('set', (0xAC,)))), ('star', ('set', (B,))))), u'a€b*'),
    (('cat', ('star', ('cat', ('set', (0xC3,)), ('set', (0xA9,)))), ('set', (A,))), u'é*a'),
]


def machines(exprs):
    out = []
    for r, s in exprs:
        try:
            m = cpppo.regex_bytes(initial=s, context='re', terminal=True)
        except Exception:
            continue                                   # not expressible (eg. multi-byte ambiguity): skipped, counted below
        out.append((r, s, m))
    return out


GROUPS = {}


def add_group(name, exprs, tier, nbytes, timeout):
    ms = machines(exprs)
    GROUPS[name] = ms
    bs = ['b%d' % i for i in range(nbytes)]
    define(globals(), 'C11', name, ['which', 'n'] + bs + ['cut'],
           "return check(%r, which, [%s], n, cut)" % (name, ", ".join(bs)),
           ['0 <= which and 0 <= n <= %d and 0 <= cut' % nbytes, " and ".join('0 <= %s <= 255' % b for b in bs)],
           tier=tier, timeout=timeout, path_timeout=120, drives=DRIVES,
           symbolic=['which: selects one of the %d expressions of this group (enumerated)' % len(ms), 'n: input length 0..%d' % nbytes,
                     'b*: input bytes, each 0..255', 'cut: position where the input is split into two chunks'],
           bounds='%d expressions %s...; every input byte string of length 0..%d over 0..255; every two-way chunking; oracle = Brzozowski '
                  'derivatives over an independent AST' % (len(ms), [s for _, s, _ in ms[:6]], nbytes),
           outside='longer inputs; expressions outside this group')


def check(group, which, bs, n, cut):
    ms = GROUPS[group]
    r, s, M = ms[concretize(which, len(ms))]
    bs = bs[:concretize(n, len(bs) + 1)]
    exp_n, exp_ok = oracle(r, bs)
    cut = concretize(cut, len(bs) + 1)
    chunks = [bs[cut:]]
    src = cpppo.chainable(bs[:cut])
    data = cpppo.dotdict()
    failed = False
    with M as m:
        try:
            for mch, sta in m.run(source=src, data=data):
                if sta is None and src.peek() is None and chunks:
                    src.chain(chunks.pop(0))
        except cpppo.NonTerminal:
            failed = True
        term = m.terminal
    got = [x for x in data.get('re.input', [])]
    accept = exp_ok and exp_n >= 1
    return src.sent == exp_n and got == bs[:exp_n] and term == accept and failed == (not term)


for _i in range(0, len(CURATED), 4):
    add_group('curated_%d' % (_i // 4), CURATED[_i:_i + 4], 'quick', 4, 1200)
# states whose ONLY way out is a negated class / '.' (every named symbol loops back): must not be mistaken for dead states
_a, _na, _ab = ('set', (A,)), ('nset', (A,)), ('alt', ('set', (A,)), ('set', (B,)))
NEGATED_EXIT = [
    (('cat', ('cat', _a, ('star', _a)), _na), 'a+[^a]'),
    (('cat', ('any',), ('cat', ('star', _a), _na)), '.a*[^a]'),
    (('cat', ('cat', _ab, ('star', _ab)), ('nset', (A, B))), '(a|b)+[^ab]'),
    (('cat', ('any',), ('any',)), '..'),
    (rep(('any',), 2, 3), '.{2,3}'),
    (('cat', _na, ('cat', ('star', _a), _na)), '[^a]a*[^a]'),
]
add_group('negated_exit', NEGATED_EXIT, 'quick', 4, 1200)
add_group('multibyte', MB, 'quick', 5, 900)
_E = ('cat', ('set', (0xC3,)), ('set', (0xA9,)))
add_group('multibyte_plus', [(('cat', _E, ('star', _E)), u'\xe9+')], 'quick', 5, 900)
_ops1 = build(1)
_ops2 = build(2)
for _i in range(0, len(_ops1), 10):
    add_group('ops1_%02d' % (_i // 10), _ops1[_i:_i + 10], 'quick' if _i // 10 in (0, 3) else 'thorough', 4, 1200)
for _i in range(0, len(_ops2), 25):
    add_group('ops2_%03d' % (_i // 25), _ops2[_i:_i + 25], 'thorough', 4, 3000)
for _i in range(0, len(CURATED), 2):
    add_group('curated_len5_%d' % (_i // 2), CURATED[_i:_i + 2], 'thorough', 5, 3000)
